/-
Model of the DTML compiler on top of the tokeniser (DTML/Scan.lean):
  * DT_Util.parse_params, name_param, DT_Let.parse_let_params (attribute grammar)
  * parseTag of String / HTML (start / end / continuation tags, the `else` special case)
  * the block builder of String.parse / parse_block / parse_close (as one
    left-to-right pass with an explicit stack: the *set* of rejected sources is the same
    as that of the two-pass Python code; only which error is reported first may differ)
  * the constructors of every tag with their ParseError conditions.

Python expressions are opaque: the builder lists every expression it hands to
`Eval(...)`, with the way a SyntaxError would surface (ParseError for the "..."
shorthand, SyntaxError for an explicit expr= attribute); the harness compiles them.
-/
import DTML.Gen
import DTML.Scan
namespace DTML.Parse
open DTML.Scan

/-! ### attribute grammar -/

/-- value of a parsed attribute -/
inductive PVal where
  | str (s : Text)                -- written value (name=value, name="value", unnamed value)
  | dflt (repr : String)          -- attribute without value: the table's default (Python repr)
  deriving Repr, DecidableEq

abbrev Params := List (String × PVal)       -- insertion-ordered dict; "" = the unnamed value

structure PErr where
  msg : String
  deriving Repr, DecidableEq

/-- attribute table of a tag: name ↦ Python repr of the default (`"None"` = a value is required) -/
abbrev Table := List (String × String)

/-- `[^\000- ="]` -/
def isTokChar (c : Char) : Bool := c.toNat > 32 && c != '=' && c != '"'

/-- `str.lower()` on what can become an ASCII attribute name: ASCII letters and the Kelvin sign -/
def asciiLower (s : Text) : Text := s.map fun c => if c.toNat = 0x212a then 'k' else c.toLower

/-- one step of parse_params: what the four regexes see at the start of `text` -/
inductive Spec where
  | named (name value : Text) (len : Nat)        -- name=value  or  name="value"
  | bare (word : Text) (len : Nat)               -- unquoted word
  | quoted (q : Text) (len : Nat)                -- "…" (quotes included)
  | blank
  | bad

def nextSpec (text : Text) : Spec :=
  let w := (text.takeWhile isCtl).length
  let s := text.drop w
  let n := (s.takeWhile isTokChar).length
  if n > 0 then
    let name := s.take n
    match s.drop n with
    | '=' :: r =>
      let v := (r.takeWhile isTokChar).length
      if v > 0 then .named name (r.take v) (w + n + 1 + v)
      else
        match r with
        | '"' :: q =>
          (match findSub ['"'] q with
           | some e => .named name (q.take e) (w + n + 2 + e + 1)
           | none => .bare name (w + n))
        | _ => .bare name (w + n)
    | _ => .bare name (w + n)
  else
    match s with
    | '"' :: q =>
      (match findSub ['"'] q with
       | some e => .quoted ('"' :: q.take e ++ ['"']) (w + 1 + e + 1)
       | none => if (pyStrip text).isEmpty then .blank else .bad)
    | _ => if (pyStrip text).isEmpty then .blank else .bad

def Params.has (p : Params) (k : String) : Bool := (p.lookup k).isSome

/-- DT_Util.parse_params.  `fuel` ≥ |text| + 1. -/
def parseParamsAux (tbl : Table) : Nat → Text → Params → Except PErr Params
  | 0, _, res => .ok res
  | fuel + 1, text, res =>
    match nextSpec text with
    | .named name value len =>
      let nm := String.ofList (asciiLower name)
      match tbl.lookup nm with
      | none => .error ⟨"Invalid attribute name"⟩
      | some d =>
        if res.has nm && d != "[]" then .error ⟨"Duplicate values for attribute"⟩
        else
          let res := (res.filter (·.1 != nm)) ++ [(nm, .str value)]
          let rest := pyStrip (text.drop len)
          if rest.isEmpty then .ok res else parseParamsAux tbl fuel rest res
    | .bare word len =>
      let nm := String.ofList word
      if res.isEmpty then parseParamsAux tbl fuel (text.drop len) [("", .str word)]
      else
        match tbl.lookup nm with
        | none => .error ⟨"Invalid attribute name"⟩
        | some d =>
          if d = "None" then .error ⟨"Attribute requires a value"⟩
          else parseParamsAux tbl fuel (text.drop len) ((res.filter (·.1 != nm)) ++ [(nm, .dflt d)])
    | .quoted q len =>
      if res.isEmpty then parseParamsAux tbl fuel (text.drop len) [("", .str q)]
      else .error ⟨"Invalid attribute name"⟩
    | .blank => .ok res
    | .bad => .error ⟨"invalid parameter"⟩

def parseParams (tbl : Table) (text : Text) : Except PErr Params :=
  parseParamsAux tbl (text.length + 1) text []

/-- an expression handed to `Eval(...)` at compile time -/
structure ExprUse where
  src : Text
  shorthand : Bool        -- true: SyntaxError becomes ParseError; false: SyntaxError escapes
  deriving Repr, DecidableEq

def isQuotedShorthand (v : Text) : Bool := v.head? = some '"' && v.getLast? = some '"' && v.length > 1

/-- result of name_param: the name (or expression source) and whether it is an expression -/
structure NameOrExpr where
  name : Text
  isExpr : Bool
  deriving Repr, DecidableEq

/-- the Python value of a default given by its repr, as text: `'abc'` ↦ abc, `1` ↦ 1 -/
def reprValue (r : String) : Text :=
  match r.toList with
  | '\'' :: t => t.dropLast
  | l => l

def pvalText : PVal → Text
  | .str s => s
  | .dflt r => reprValue r

/-- DT_Util.name_param(params, tag, expr, attr) -/
def nameParam (p : Params) (allowExpr : Bool) (attr : String := "name") :
    Except PErr (NameOrExpr × List ExprUse) :=
  match p.lookup "" with
  | some v =>
    let v := pvalText v
    if isQuotedShorthand v then
      if p.has attr then .error ⟨attr ++ " and expr given"⟩
      else if allowExpr then
        if p.has "expr" then .error ⟨"two exprs given"⟩
        else
          let e := (v.drop 1).dropLast
          .ok (⟨e, true⟩, [⟨e, true⟩])
      else .error ⟨"The \"...\" shorthand for expr was used in a tag that doesn't support expr attributes."⟩
    else
      if p.has attr then .error ⟨"Two " ++ attr ++ " values were given"⟩
      else if allowExpr && p.has "expr" then .error ⟨attr ++ " and expr given"⟩
      else .ok (⟨v, false⟩, [])
  | none =>
    match p.lookup attr with
    | some v =>
      if allowExpr && p.has "expr" then .error ⟨attr ++ " and expr given"⟩
      else .ok (⟨pvalText v, false⟩, [])
    | none =>
      match (if allowExpr then p.lookup "expr" else none) with
      | some e => .ok (⟨pvalText e, true⟩, [⟨pvalText e, false⟩])
      | none => .error ⟨"No " ++ attr ++ " given"⟩

/-- DT_Let.parse_let_params: list of (name, value) where a quoted value keeps its quotes -/
def parseLetAux : Nat → Text → List (Text × Text) → Except PErr (List (Text × Text))
  | 0, _, res => .ok res
  | fuel + 1, text, res =>
    let w := (text.takeWhile isCtl).length
    let s := text.drop w
    let n := (s.takeWhile isTokChar).length
    let fail : Except PErr (List (Text × Text)) :=
      if (pyStrip text).isEmpty then .ok res else .error ⟨"invalid parameter"⟩
    if n = 0 then fail
    else
      match s.drop n with
      | '=' :: r =>
        let v := (r.takeWhile isTokChar).length
        if v > 0 then
          let rest := pyStrip (text.drop (w + n + 1 + v))
          let res := res ++ [(s.take n, r.take v)]
          if rest.isEmpty then .ok res else parseLetAux fuel rest res
        else
          match r with
          | '"' :: q =>
            (match findSub ['"'] q with
             | some e =>
               let rest := pyStrip (text.drop (w + n + 2 + e + 1))
               let res := res ++ [(s.take n, '"' :: q.take e ++ ['"'])]
               if rest.isEmpty then .ok res else parseLetAux fuel rest res
             | none => fail)
          | _ => fail
      | _ => fail

def parseLet (text : Text) : Except PErr (List (Text × Text)) := parseLetAux (text.length + 1) text []

/-! ### commands -/

inductive Cmd where
  | var | call | comment | ret | if_ | unless | else_ | in_ | with_ | let_ | raise_ | try_ | tree
  deriving Repr, DecidableEq

def Cmd.ofName (n : String) : Option Cmd :=
  match n with
  | "var" => some .var | "call" => some .call | "comment" => some .comment | "return" => some .ret
  | "if" => some .if_ | "unless" => some .unless | "else" => some .else_ | "in" => some .in_
  | "with" => some .with_ | "let" => some .let_ | "raise" => some .raise_ | "try" => some .try_
  | "tree" => some .tree
  | _ => none

def Cmd.name : Cmd → String
  | .var => "var" | .call => "call" | .comment => "comment" | .ret => "return" | .if_ => "if"
  | .unless => "unless" | .else_ => "else" | .in_ => "in" | .with_ => "with" | .let_ => "let"
  | .raise_ => "raise" | .try_ => "try" | .tree => "tree"

/-- block continuations; `none` = a simple (non-block) tag.  Checked against
`Gen.commands` (regenerated from String.commands) in Props/C06. -/
def Cmd.continuations : Cmd → Option (List String)
  | .var => none | .call => none | .ret => none
  | .if_ => some ["else", "elif"]
  | .in_ => some ["else"]
  | .try_ => some ["except", "else", "finally"]
  | _ => some []

def Cmd.isBlock (c : Cmd) : Bool := c.continuations.isSome

def tbl (l : List (List (String × String))) (i : Nat) : Table := l.getD i []

/-! ### compiled nodes -/

/-- one section of a block: the tag that opened it (start or continuation tag), its
arguments and its body -/
structure Section (α : Type) where
  tname : String
  args : Text
  body : List α

/-- what the tag constructors record (enough to compare with `_v_blocks`) -/
structure Built where
  params : Params := []
  target : Option NameOrExpr := none
  exprs : List ExprUse := []
  deriving Repr

/-- `^[a-z][a-z0-9_]*$` with re.I (`$` also matches before one final newline) -/
inductive Node where
  | lit (s : Text)
  | simple (cmd : Cmd) (b : Built) (fmt : Text)
  | block (cmd : Cmd) (b : Built) (secs : List (Section Node))

def simpleName (s : Text) : Bool :=
  let s := if s.getLast? = some '\n' then s.dropLast else s
  match s with
  | [] => false
  | c :: t => isAlphaI c && t.all (fun d => isAlphaI d || isAsciiDigit d || d = '_')

/-- constructor of a simple tag -/
def checkSimple (cmd : Cmd) (args : Text) : Except PErr Built := do
  match cmd with
  | .var =>
    let args := if "var ".toList.isPrefixOf args then args.drop 4 else args
    let p ← parseParams Gen.varParams args
    let (t, es) ← nameParam p true
    return { params := p, target := some t, exprs := es }
  | .call =>
    let p ← parseParams (tbl Gen.callParams 0) args
    let (t, es) ← nameParam p true
    return { params := p, target := some t, exprs := es }
  | .ret =>
    let p ← parseParams (tbl Gen.returnParams 0) args
    let (t, es) ← nameParam p true
    return { params := p, target := some t, exprs := es }
  | _ => return {}

def pText (p : Params) (k : String) : Option Text := (p.lookup k).map pvalText

/-- first section's constructor work for a block tag; `secs` = (tname, args) of every section -/
def checkBlock (cmd : Cmd) (secs : List (String × Text)) : Except PErr Built := do
  let (_, args0) := secs.headD ("", [])
  match cmd with
  | .comment => return {}
  | .unless | .else_ =>
    let p ← parseParams (tbl Gen.unlessParams 0) args0
    let (t, es) ← nameParam p true
    return { params := p, target := some t, exprs := es }
  | .if_ =>
    let p ← parseParams (tbl Gen.ifParams 0) args0
    let (t, es) ← nameParam p true
    let rest := secs.drop 1
    -- a trailing else, possibly repeating the name
    let (mid, es) ← (match rest.getLast? with
      | some ("else", eargs) => do
        let ep ← parseParams (tbl Gen.ifParams 1) eargs
        let es' ← (if ep.isEmpty then pure es else do
          let (et, ees) ← nameParam ep true
          if et.name != t.name then throw ⟨"name in else does not match if"⟩
          pure (es ++ ees))
        pure (rest.dropLast, es')
      | _ => pure (rest, es))
    let mut es := es
    for (tn, a) in mid do
      if tn = "else" then throw ⟨"more than one else tag for a single if tag"⟩
      let ep ← parseParams (tbl Gen.ifParams 2) a
      let (_, ees) ← nameParam ep true
      es := es ++ ees
    return { params := p, target := some t, exprs := es }
  | .in_ =>
    let p ← parseParams (tbl Gen.inParams 0) args0
    let mut es : List ExprUse := []
    if let some e := pText p "sort_expr" then es := es ++ [⟨e, false⟩]
    if let some e := pText p "reverse_expr" then es := es ++ [⟨e, false⟩]
    let batch := p.has "start" || p.has "size" || p.has "end"
    if let some pre := pText p "prefix" then
      if !pre.isEmpty && !(simpleName pre) then throw ⟨"prefix is not a simple name"⟩
    for n in ["orphan", "overlap", "previous", "next"] do
      if p.has n && !batch then throw ⟨"batch attribute without start, end or size"⟩
    let (t, es') ← nameParam p true
    es := es ++ es'
    if secs.length > 1 then
      if secs.length != 2 then throw ⟨"too many else blocks"⟩
      let (_, eargs) := secs.getD 1 ("", [])
      let ep ← parseParams (tbl Gen.inParams 1) eargs
      if !ep.isEmpty then
        let (et, _) ← nameParam ep false
        if et.name != t.name then throw ⟨"name in else does not match in"⟩
    return { params := p, target := some t, exprs := es }
  | .with_ =>
    let p ← parseParams (tbl Gen.withParams 0) args0
    let (t, es) ← nameParam p true
    return { params := p, target := some t, exprs := es }
  | .let_ =>
    let l ← parseLet args0
    let es := l.filterMap fun (_, v) =>
      if isQuotedShorthand v then some (⟨(v.drop 1).dropLast, true⟩ : ExprUse) else none
    return { params := l.map fun (n, v) => (String.ofList n, .str v), exprs := es }
  | .raise_ =>
    let p ← parseParams (tbl Gen.raiseParams 0) args0
    let (t, es) ← nameParam p true "type"
    return { params := p, target := some t, exprs := es }
  | .try_ =>
    let p ← parseParams [] args0
    let rest := secs.drop 1
    if rest.length = 1 && (rest.headD ("", [])).1 = "finally" then return { params := p }
    let mut elseSeen := false
    let mut dfltSeen := false
    for (tn, a) in rest do
      if tn = "else" then
        if elseSeen then throw ⟨"No more than one else block is allowed"⟩
        elseSeen := true
      else if tn = "finally" then
        throw ⟨"A try..finally combination cannot contain any other else, except or finally blocks"⟩
      else
        if elseSeen then throw ⟨"The else block should be the last block in a try tag"⟩
        if (pyStrip a).isEmpty then
          if dfltSeen then throw ⟨"Only one default exception handler is allowed"⟩
          dfltSeen := true
    return { params := p }
  | .tree =>
    let p ← parseParams (tbl Gen.treeParams 0) args0
    let mut es : List ExprUse := []
    let mut tgt : Option NameOrExpr := none
    if p.has "" || p.has "name" || p.has "expr" then
      let (t, es') ← nameParam p true
      tgt := some t
      es := es'
    if p.has "branches_expr" then
      if p.has "branches" then throw ⟨"branches and  and branches_expr given"⟩
      es := es ++ [⟨(pText p "branches_expr").getD [], false⟩]
    if let some pre := pText p "prefix" then
      if !pre.isEmpty && !(simpleName pre) then throw ⟨"prefix is not a simple name"⟩
    return { params := p, target := tgt, exprs := es }
  | _ => return {}

/-! ### parseTag: what a token means in its context -/

inductive TagRole where
  | start (cmd : Cmd) (args : Text)      -- a new tag (simple or block)
  | cont (name : String) (args : Text)   -- continuation of the innermost open block
  | close (args : Text)                  -- end tag of the innermost open block
  deriving Repr

/-- `[ \t\n]*`-style prefix test of the `else` special case:
`args == sargs or (args == sargs[:l] and sargs[l:l+1] in ' \t\n')` -/
def elseMatches (args sargs : Text) : Bool :=
  args == sargs ||
  (args.isPrefixOf sargs &&
    (match (sargs.drop args.length).head? with
     | none => true
     | some c => c = ' ' || c = '\t' || c = '\n'))

/-- HTML.parseTag / String.parseTag for a token, given the innermost open block
(its command and start-tag arguments) -/
def tagRole (syn : Syntax) (tk : Tok) (ctx : Option (Cmd × Text)) : Except PErr TagRole :=
  let args := pyStrip tk.args
  let name := String.ofList tk.name
  let startOrCont : Except PErr TagRole :=
    match ctx with
    | some (c, sargs) =>
      if (c.continuations.getD []).contains name then
        if name = "else" && !args.isEmpty && !(elseMatches args sargs) then .ok (.start .else_ args)
        else .ok (.cont name args)
      else
        match Cmd.ofName name with
        | some c' => .ok (.start c' args)
        | none => .error ⟨"Unexpected tag"⟩
    | none =>
      match Cmd.ofName name with
      | some c' => .ok (.start c' args)
      | none => .error ⟨"Unexpected tag"⟩
  match syn with
  | .html =>
    if tk.isEnd then
      match ctx with
      | some (c, _) => if name = c.name then .ok (.close args) else .error ⟨"unexpected end tag"⟩
      | none => .error ⟨"unexpected end tag"⟩
    else startOrCont
  | .epfs =>
    if tk.fmt = [']'] then
      match ctx with
      | some (c, _) => if name = c.name then .ok (.close args) else .error ⟨"unexpected end tag"⟩
      | none => .error ⟨"unexpected end tag"⟩
    else if tk.fmt = ['['] || tk.fmt = ['!'] then startOrCont
    else .ok (.start .var (if args.isEmpty then tk.name else tk.name ++ [' '] ++ args))

/-! ### the builder -/

/-- `skip_eol`: drop `[ \t]*\n` at the start, if present -/
def skipEol (s : Text) : Text :=
  let r := s.dropWhile (fun c => c = ' ' || c = '\t')
  match r with
  | '\n' :: t => t
  | _ => s

/-- an open block on the stack -/
structure Frame where
  cmd : Cmd
  sargs : Text                          -- arguments of the start tag (for the else special case)
  startTok : Nat                        -- index of the start tag (for error location)
  done : List (Section Node)            -- finished sections
  curName : String
  curArgs : Text
  cur : List Node                       -- body of the section being read (reversed)

structure Located where
  err : PErr
  tok : Nat                             -- index of the token the error is reported for
  deriving Repr

structure Out where
  nodes : List Node
  exprs : List ExprUse

def litNode (s : Text) : List Node := if s.isEmpty then [] else [.lit s]

/-- add nodes to the innermost open section (or to the top level) -/
def pushNodes (ns : List Node) (stack : List Frame) (top : List Node) : List Frame × List Node :=
  match stack with
  | f :: fs => ({ f with cur := ns.reverse ++ f.cur } :: fs, top)
  | [] => ([], ns.reverse ++ top)

/-- the tokens are consumed left to right; `afterBlockTag` says that the pending
literal directly follows a block open / continuation / close tag (so a line end
is skipped).  Returns the compiled top-level nodes. -/
def buildAux (syn : Syntax) :
    List (Text × Tok) → Text → Nat → Bool → List Frame → List Node → List ExprUse →
    Except Located Out
  | [], tail, _, afterBT, stack, top, exprs =>
    match stack with
    | f :: _ => .error ⟨⟨"No closing tag"⟩, f.startTok⟩
    | [] =>
      let tail := if afterBT then skipEol tail else tail
      .ok ⟨(litNode tail).reverse ++ top |>.reverse, exprs⟩
  | (lit, tk) :: rest, tail, idx, afterBT, stack, top, exprs =>
    let lit := if afterBT then skipEol lit else lit
    let ctx := stack.head?.map (fun f => (f.cmd, f.sargs))
    match tagRole syn tk ctx with
    | .error e => .error ⟨e, idx⟩
    | .ok role =>
      match role with
      | .start cmd args =>
        if cmd.isBlock then
          let st := pushNodes (litNode lit) stack top
          buildAux syn rest tail (idx + 1) true
            ({ cmd := cmd, sargs := args, startTok := idx, done := [], curName := cmd.name,
               curArgs := args, cur := [] } :: st.1) st.2 exprs
        else
          match checkSimple cmd args with
          | .error e => .error ⟨e, idx⟩
          | .ok b =>
            let fmt := if syn = .epfs then tk.fmt else ['s']
            let st := pushNodes (litNode lit ++ [.simple cmd b fmt]) stack top
            buildAux syn rest tail (idx + 1) false st.1 st.2 (exprs ++ b.exprs)
      | .cont name args =>
        match stack with
        | [] => .error ⟨⟨"Unexpected tag"⟩, idx⟩
        | f :: fs =>
          let body := ((litNode lit).reverse ++ f.cur).reverse
          let f' := { f with done := f.done ++ [⟨f.curName, f.curArgs, body⟩], curName := name,
                              curArgs := args, cur := [] }
          buildAux syn rest tail (idx + 1) true (f' :: fs) top exprs
      | .close _ =>
        match stack with
        | [] => .error ⟨⟨"unexpected end tag"⟩, idx⟩
        | f :: fs =>
          let body := ((litNode lit).reverse ++ f.cur).reverse
          let secs := f.done ++ [⟨f.curName, f.curArgs, body⟩]
          match checkBlock f.cmd (secs.map fun s => (s.tname, s.args)) with
          | .error e => .error ⟨e, f.startTok⟩
          | .ok b =>
            let st := pushNodes [.block f.cmd b secs] fs top
            buildAux syn rest tail (idx + 1) true st.1 st.2 (exprs ++ b.exprs)

/-- compile a source text -/
def compile (syn : Syntax) (src : Text) : Except Located Out :=
  let (ps, tl) := tokens syn src
  buildAux syn ps tl 0 false [] [] []

/-- start offset of token `i` in the source, and the text of that tag -/
def tokStart (ps : List (Text × Tok)) (i : Nat) : Nat :=
  ((ps.take i).map (fun (l, t) => l.length + t.text.length)).sum + ((ps.getD i ([], ⟨[], false, [], [], []⟩)).1.length)

/-- `len(text[:start].split('\n'))` -/
def lineOf (src : Text) (start : Nat) : Nat := 1 + countChar '\n' (src.take start)

end DTML.Parse
