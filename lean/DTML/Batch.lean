/-
Model of the batch-window arithmetic of `dtml-in`:
  DT_InSV.opt, the window/previous/next computation of DT_In.InClass.renderwb,
  and the lazy `SequenceFromIter` wrapper of DT_Util (pull log).

No Mathlib imports: this file is also linked into the driver executable.
-/
namespace DTML.Batch

/-- A sequence as `opt`/`renderwb` see it: its true length (`none` = unbounded
iterator) and whether it is the lazy `SequenceFromIter` wrapper (negative
indexes raise) or a real list/tuple (negative indexes wrap). -/
structure Seq where
  len   : Int
  lazy_ : Bool
  deriving Repr, DecidableEq

/-- does `sequence[i]` succeed? -/
def probe (s : Seq) (i : Int) : Bool :=
  if i < 0 then (!s.lazy_ && decide (-s.len ≤ i)) else decide (i < s.len)

/-- `DT_InSV.opt(start, end, size, orphan, sequence)` → `(start, end, size)`. -/
def opt (start end_ size orphan : Int) (s : Seq) : Int × Int × Int :=
  let size := if size < 1 then
      (if start > 0 ∧ end_ > 0 ∧ end_ ≥ start then end_ + 1 - start else 7)
    else size
  if start > 0 then
    let start := if probe s (start - 1) then start else s.len
    if end_ > 0 then
      (start, (if end_ < start then start else end_), size)
    else
      let e := start + size - 1
      (start, (if probe s (e + orphan - 1) then e else s.len), size)
  else if end_ > 0 then
    let e := if probe s (end_ - 1) then end_ else s.len
    let st := e + 1 - size
    ((if st - 1 < orphan then 1 else st), e, size)
  else
    let e := 1 + size - 1
    (1, (if probe s (e + orphan - 1) then e else s.len), size)

/-- The window `renderwb` displays: `opt`, then the end is clamped to the
sequence (the clamp is the `fix:` for explicit `start` *and* `end` beyond the
length; without it `opt 1 9 … (len 7)` yields end 9 and rendering raises). -/
def window (start end_ size orphan : Int) (s : Seq) : Int × Int × Int :=
  let (st, e, sz) := opt start end_ size orphan s
  (st, (if probe s (e - 1) then e else s.len), sz)

/-- What `renderwb` announces about the neighbouring batches on the first /
last displayed element.  All numbers 1-based (`…-start-number`). -/
structure Links where
  prevFlag  : Bool        -- previous-sequence on the first displayed element
  prevStart : Int
  prevEnd   : Int
  nextFlag  : Bool        -- next-sequence on the last displayed element
  nextStart : Int
  nextEnd   : Int
  deriving Repr, DecidableEq

def links (st e sz orphan overlap : Int) (s : Seq) : Links :=
  let p := opt 0 (st - 1 + overlap) sz orphan s
  let n := opt (e + 1 - overlap) 0 sz orphan s
  { prevFlag := decide (st - 1 > 0), prevStart := p.1, prevEnd := p.2.1,
    nextFlag := probe s e, nextStart := n.1, nextEnd := n.2.1 }

/-- Following `next-sequence-start-number`: the windows shown when the user
starts at `start` and keeps clicking "next" (re-rendering with
`start = next-sequence-start-number`, same size/orphan/overlap). -/
def follow (size orphan overlap : Int) (s : Seq) : Nat → Int → List (Int × Int)
  | 0, start =>
      let w := window start 0 size orphan s
      [(w.1, w.2.1)]
  | fuel + 1, start =>
      let w := window start 0 size orphan s
      if probe s w.2.1 then
        (w.1, w.2.1) :: follow size orphan overlap s fuel
            (opt (w.2.1 + 1 - overlap) 0 w.2.2 orphan s).1
      else [(w.1, w.2.1)]

/-- Following `previous-sequence-start-number` back from a window starting at
`start`: the list of window starts visited. -/
def followPrev (size orphan overlap : Int) (s : Seq) : Nat → Int → List Int
  | 0, start => [start]
  | fuel + 1, start =>
      if start - 1 > 0 then
        start :: followPrev size orphan overlap s fuel
            (opt 0 (start - 1 + overlap) size orphan s).1
      else [start]

/-! ### The batch lists `next-batches` / `previous-batches` (`sequence_variables.next_batches`, `previous_batches`)

The `while` loops of the source, with explicit fuel (`Props/C11.batches_fuel`: `len` iterations always suffice, more fuel
never changes the list).  One entry per listed batch: `(batch-start-index, batch-end-index, batch-size)`; `end_` /
`start` are the 1-based `sequence-step-end` / `sequence-step-start` of the window being displayed. -/

def nextBatches (sz orphan overlap : Int) (s : Seq) : Nat → Int → List (Int × Int × Int)
  | 0, _ => []
  | fuel + 1, end_ =>
    if end_ < s.len then
      let o := opt (end_ + 1 - overlap) 0 sz orphan s
      if o.2.1 ≤ end_ then []
      else (o.1 - 1, o.2.1 - 1, o.2.1 + 1 - o.1) :: nextBatches sz orphan overlap s fuel o.2.1
    else []

/-- the loop of `previous_batches` (nearest batch first; the method reverses the list at the end) -/
def prevBatchesRev (sz orphan overlap : Int) (s : Seq) : Nat → Int → List (Int × Int × Int)
  | 0, _ => []
  | fuel + 1, start =>
    if start > 1 then
      let o := opt 0 (start - 1 + overlap) sz orphan s
      if o.1 ≥ start then []
      else (o.1 - 1, o.2.1 - 1, o.2.1 + 1 - o.1) :: prevBatchesRev sz orphan overlap s fuel o.1
    else []

def prevBatches (sz orphan overlap : Int) (s : Seq) (fuel : Nat) (start : Int) : List (Int × Int × Int) :=
  (prevBatchesRev sz orphan overlap s fuel start).reverse

/-! ### Lazy sequences (`SequenceFromIter`): the pull log -/

/-- State of a `SequenceFromIter` over an iterator that yields `src` items
(`none` = unbounded): how many items were pulled, and whether exhaustion was
seen. -/
structure LazySt where
  src      : Option Nat
  pulled   : Nat
  finished : Bool
  log      : List Nat        -- indexes pulled from the iterator, in order
  deriving Repr, DecidableEq

def LazySt.init (src : Option Nat) : LazySt := ⟨src, 0, false, []⟩

/-- `next(self.it)`: the state with one more item pulled (and logged), or `none` for StopIteration -/
def LazySt.next? (l : LazySt) : Option LazySt :=
  match l.src with
  | some n => if l.pulled < n then some { l with pulled := l.pulled + 1, log := l.log ++ [l.pulled] } else none
  | none   => some { l with pulled := l.pulled + 1, log := l.log ++ [l.pulled] }

/-- one `next(self.it)`: returns the new state (pulled one more, or finished). -/
def LazySt.pull1 (l : LazySt) : LazySt :=
  match l.src with
  | some n => if l.pulled < n then { l with pulled := l.pulled + 1, log := l.log ++ [l.pulled] }
              else { l with finished := true }
  | none   => { l with pulled := l.pulled + 1, log := l.log ++ [l.pulled] }

/-- the `while not finished and idx >= len(data)` loop, with explicit fuel
(`idx + 1` iterations always suffice). -/
def LazySt.fill (l : LazySt) (idx : Nat) : Nat → LazySt
  | 0 => l
  | fuel + 1 =>
    if !l.finished && decide (idx ≥ l.pulled) then (l.pull1).fill idx fuel else l

/-- `seq[idx]` on the wrapper: new state and whether the access succeeded. -/
def LazySt.get (l : LazySt) (idx : Int) : LazySt × Bool :=
  if idx < 0 then (l, false)
  else
    let l' := l.fill idx.toNat (idx.toNat + 2)
    (l', decide (idx.toNat < l'.pulled))

/-! ### Which objects `dtml-in` takes as they are, which it wraps (`DT_Util.sequence_ensure_subscription`) -/

/-- the kinds of objects a `dtml-in` is handed (the kinds the harness generates) -/
inductive SeqKind where
  | list | tuple | str | dict | set
  | iterator            -- an object with `__iter__` and `__next__` (also `map`, `iter([...])`)
  | generator
  | getitemLen          -- an object with `__getitem__` and `__len__` (result-set style), no mapping methods
  | getitemOnly         -- the old sequence protocol: `__getitem__` only
  | iterOnly            -- an object with only `__iter__`
  deriving Repr, DecidableEq

/-- is the object used as it is (subscripted directly)?  Otherwise it is iterated through the lazy wrapper. -/
def SeqKind.listLike : SeqKind → Bool
  | .list | .tuple | .str | .getitemLen => true
  | .dict | .set | .iterator | .generator | .getitemOnly | .iterOnly => false

/-- what `dtml-in` works on -/
inductive Ensured where
  | asIs                      -- the object itself
  | wrapped (l : LazySt)      -- a `SequenceFromIter` around `iter(obj)`, in this state
  deriving Repr, DecidableEq

/-- `sequence_ensure_subscription(obj)` for an object of kind `k` whose iteration yields `src` items
(`none` = unbounded): a freshly wrapped iterator has pulled nothing -/
def ensure (k : SeqKind) (src : Option Nat) : Ensured :=
  if k.listLike then .asIs else .wrapped (LazySt.init src)

/-! ### Access traces: which indexes `renderwb` asks the sequence for, in order.

Success of `sequence[i]` depends only on `i` and the true length, never on what
was pulled before, so control flow is that of `opt`/`window` above and the
accesses can be listed next to the results. -/

inductive Acc where
  | get (i : Int)      -- sequence[i]
  | len                -- len(sequence)  (pulls everything; diverges if unbounded)
  deriving Repr, DecidableEq

/-- `try: sequence[i] except: x = len(sequence)` -/
def probeT (s : Seq) (i : Int) : List Acc :=
  if probe s i then [.get i] else [.get i, .len]

/-- `opt` together with its accesses. -/
def optT (start end_ size orphan : Int) (s : Seq) : (Int × Int × Int) × List Acc :=
  let size := if size < 1 then
      (if start > 0 ∧ end_ > 0 ∧ end_ ≥ start then end_ + 1 - start else 7)
    else size
  if start > 0 then
    let t1 := probeT s (start - 1)
    let start := if probe s (start - 1) then start else s.len
    if end_ > 0 then
      ((start, (if end_ < start then start else end_), size), t1)
    else
      let e := start + size - 1
      ((start, (if probe s (e + orphan - 1) then e else s.len), size), t1 ++ probeT s (e + orphan - 1))
  else if end_ > 0 then
    let e := if probe s (end_ - 1) then end_ else s.len
    let st := e + 1 - size
    (((if st - 1 < orphan then 1 else st), e, size), probeT s (end_ - 1))
  else
    let e := 1 + size - 1
    ((1, (if probe s (e + orphan - 1) then e else s.len), size), probeT s (e + orphan - 1))

def windowT (start end_ size orphan : Int) (s : Seq) : (Int × Int × Int) × List Acc :=
  let ((st, e, sz), t) := optT start end_ size orphan s
  ((st, (if probe s (e - 1) then e else s.len), sz), t ++ probeT s (e - 1))

/-- the batch-information probes done on the first and on the last displayed element -/
def linkT (st e sz orphan overlap : Int) (s : Seq) : List Acc :=
  (if st - 1 > 0 then (optT 0 (st - 1 + overlap) sz orphan s).2 else []) ++
  [.get e] ++
  (if probe s e then (optT (e + 1 - overlap) 0 sz orphan s).2 else [])

/-- accesses of the main loop `for index in range(first, end)`; `k` counts the
remaining iterations, `index` the current 0-based index. -/
def loopT (st e sz orphan overlap : Int) (s : Seq) : Nat → Int → List Acc
  | 0, _ => []
  | k + 1, index =>
    (if index = st - 1 ∨ index = e - 1 then linkT st e sz orphan overlap s else []) ++
    [.get index] ++ loopT st e sz orphan overlap s k (index + 1)

/-- every access `renderwb` makes to the sequence (no sort/reverse, no
`previous`/`next` attribute, no guard): emptiness test, `opt`, clamp, loop. -/
def renderwbT (start end_ size orphan overlap : Int) (s : Seq) : List Acc :=
  if probe s 0 then
    let ((st, e, sz), t) := windowT start end_ size orphan s
    [.get 0] ++ t ++ loopT st e sz orphan overlap s (e - (st - 1)).toNat (st - 1)
  else [.get 0]

/-- unbatched rendering (`renderwob`): emptiness test, `len`, then every index once -/
def renderwobT (s : Seq) : List Acc :=
  if probe s 0 then
    [.get 0, .len] ++ (List.range s.len.toNat).map (fun (i : Nat) => Acc.get (Int.ofNat i))
  else [.get 0]

/-- high-water mark of a trace: 1 + the largest non-negative index asked for -/
def hw : List Acc → Nat
  | [] => 0
  | .get i :: t => max (if i < 0 then 0 else i.toNat + 1) (hw t)
  | .len :: t => hw t

def hasLen : List Acc → Bool
  | [] => false
  | .get _ :: t => hasLen t
  | .len :: _ => true

/-- `len(seq)` on the wrapper: pull until exhausted (bounded sources only; on an
unbounded source the real code does not return — modelled as no change and
flagged by `hasLen`). -/
def LazySt.lenOp (l : LazySt) : LazySt :=
  match l.src with
  | some n => l.fill n (n + 2)
  | none => l

def LazySt.run (l : LazySt) : List Acc → LazySt
  | [] => l
  | .get i :: t => ((l.get i).1).run t
  | .len :: t => (l.lenOp).run t

end DTML.Batch
