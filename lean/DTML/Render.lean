/-
Model of the renderer: the namespace stack (TemplateDict, InstanceDict), name lookup with
and without auto-call, expressions (a small sub-language of what `expr=` allows),
`render_blocks_` with the tags var, if/elif/else, unless, call, in (unbatched), with, let,
try/except/else, try/finally, raise, return, comment, and `String.__call__` for
top-level calls and for templates invoked by name from another template.

Big-step, fuel-indexed (every recursive call consumes fuel), state-passing: the state
survives exceptions, which is what the stack-restoration property (C08) is about.
-/
import DTML.Batch
namespace DTML.Render

abbrev Text := List Char

inductive Val where
  | none
  | bool (b : Bool)
  | int (i : Int)
  | str (s : Text)
  | bytes (b : List Nat)
  | list (xs : List Val)
  | tuple (xs : List Val)
  | dict (kvs : List (Text × Val))
  | obj (id : Nat) (attrs : List (Text × Val))
  /-- a callable: invoking it records `call id` and yields `result` -/
  | fn (id : Nat) (result : Val)
  /-- a document template (index into `Env.templates`) -/
  | tmpl (id : Nat)
  | exc (cls : Text) (msg : Text)
  deriving Repr, Inhabited

structure Exc where
  cls : Text
  msg : Text
  deriving Repr, DecidableEq, Inhabited

inductive Expr where
  | name (n : Text)             -- a free name of the expression: md.getitem(n, 0), not called
  | under (n : Text)            -- _['n']: md[n], callables are called
  | lit (v : Val)
  | attr (e : Expr) (a : Text)  -- e.a   (guarded getattr)
  | item (e : Expr) (k : Val)   -- e[k]  (guarded getitem)
  | call (e : Expr)             -- e()
  | not (e : Expr)
  | eq (a b : Expr)
  deriving Repr, Inhabited

inductive Src where
  | name (n : Text)
  | expr (e : Expr)
  deriving Repr, Inhabited

structure InOpts where
  mapping : Bool := false
  noPush : Bool := false
  prefix_ : Option Text := none
  /-- skip_unauthorized: items the item guard refuses are left out instead of raising -/
  skipUnauth : Bool := false
  deriving Repr, Inhabited

/-- literal batch parameters of a dtml-in (0 = not given, as `int_param` reads them) -/
structure BatchP where
  start : Int := 0
  end_ : Int := 0
  size : Int := 0
  orphan : Int := 0
  overlap : Int := 0
  /-- the `previous` / `next` attributes: render the section once, for the neighbouring batch -/
  previous : Bool := false
  next : Bool := false
  deriving Repr, Inhabited

/-- the options of dtml-in that rearrange or cut the sequence: `sort=key` (one key, default comparison,
ascending), `reverse`, and the batch parameters -/
structure InXOpts where
  sortKey : Option Text := none
  reverse : Bool := false
  batch : Option BatchP := none
  /-- `sort_expr="…"`: its value (a string naming the key) is the sort key of this rendering; it wins over `sort=` -/
  sortExpr : Option Expr := none
  /-- `reverse_expr="…"`: the sequence is reversed when it is true (or when `reverse` is given as well) -/
  reverseExpr : Option Expr := none
  /-- batch parameters given by variable name, in the order `renderwb` resolves them (start, end, size, overlap,
  orphan): (parameter, variable) -/
  names : List (Text × Text) := []
  deriving Repr, Inhabited

inductive Blk where
  | lit (s : Text)
  | var (src : Src) (hq : Bool) (missing : Option Text) (null : Option Text)
  | cond (conds : List (Src × List Blk)) (els : Option (List Blk))
  | unless_ (src : Src) (body : List Blk)
  | call (src : Src)
  | in_ (src : Src) (o : InOpts) (body : List Blk) (els : Option (List Blk))
  /-- dtml-in with sort / reverse / batch options (`renderwb`, or `renderwob` over the rearranged sequence) -/
  | inx_ (src : Src) (o : InOpts) (x : InXOpts) (body : List Blk) (els : Option (List Blk))
  | with_ (src : Src) (mapping : Bool) (only : Bool) (body : List Blk)
  | let_ (binds : List (Text × Src)) (body : List Blk)
  | try_ (body : List Blk) (handlers : List (Text × List Blk)) (els : Option (List Blk))
  | tryFin (body : List Blk) (fin : List Blk)
  | raise_ (cls : Text) (clsExpr : Option Expr) (body : List Blk)
  | ret (src : Src)
  | comment
  deriving Repr, Inhabited

/-- state of a running `dtml-in`: what sequence_variables knows -/
structure SeqVars where
  items : List Val
  index : Nat := 0
  started : Bool := true       -- sequence-start
  ended : Bool := false        -- sequence-end
  mapping : Bool := false
  prefix_ : Option Text := none
  /-- further entries of the variables' own dictionary (`data`): what a batched rendering stores there -/
  extra : List (Text × Val) := []
  /-- no `sequence-index` entry yet: the `previous` / `next` renderings of a batch, which iterate over nothing -/
  noIndex : Bool := false
  deriving Repr, Inhabited

inductive Frame where
  | dict (kvs : List (Text × Val))
  /-- InstanceDict(inst, md): attribute lookup through the guard, with its cache -/
  | inst (v : Val) (cache : List (Text × Val))
  | seq (sv : SeqVars)
  /-- something that is not a mapping was pushed as one (`mapping` given for a non-mapping):
  every lookup that reaches it raises TypeError -/
  | bad
  deriving Repr, Inhabited

inductive Event where
  | call (id : Nat)                 -- a namespace callable was invoked
  | guard (obj : Nat) (name : Text) -- the security guard was asked for obj.name
  | gitem (obj : Nat) (idx : Int)   -- guarded_getitem(sequence/obj, index)
  /-- a probe callable looked at the namespace: frame summaries (top first) and the level -/
  | snap (frames : List (Text × List Text × Nat)) (level : Nat)
  deriving Repr, DecidableEq, Inhabited

structure Template where
  blocks : List Blk
  globals : List (Text × Val) := []
  vars : List (Text × Val) := []
  deriving Repr, Inhabited

structure Env where
  templates : List Template := []
  /-- exception classes: name ↦ names of the direct base classes -/
  classes : List (Text × List Text) := []
  /-- security guard installed? and the (object, attribute) pairs it refuses -/
  guardOn : Bool := false
  denied : List (Nat × Text) := []
  /-- objects the item guard (guarded_getitem) refuses to hand out as elements of a sequence -/
  deniedItems : List Nat := []
  /-- fault injection: the k-th invocations of any callable (0-based, counted over the whole call) raise -/
  faults : List Nat := []
  faultExc : Exc := ⟨"ValueError".toList, "fault".toList⟩
  /-- template encoding is UTF-8? (else Latin-1); bytes are decoded with it when pieces are joined -/
  utf8 : Bool := true
  deriving Repr, Inhabited

structure St where
  stack : List Frame := []
  level : Nat := 0
  trace : List Event := []
  calls : Nat := 0
  deriving Repr, Inhabited

inductive Res (α : Type) where
  | ok (a : α)
  | raise (e : Exc)
  | ret (v : Val)           -- DTReturn on its way to the enclosing template call
  | oom                     -- fuel exhausted (never with enough fuel; see theorems)
  deriving Repr, Inhabited

inductive Piece where
  | text (s : Text)
  | bytes (b : List Nat)
  deriving Repr, DecidableEq, Inhabited

/-! ### Python-level helpers -/

def truthy : Val → Bool
  | .none => false
  | .bool b => b
  | .int i => i != 0
  | .str s => !s.isEmpty
  | .bytes b => !b.isEmpty
  | .list xs => !xs.isEmpty
  | .tuple xs => !xs.isEmpty
  | .dict kvs => !kvs.isEmpty
  | _ => true

def intRepr (i : Int) : Text :=
  if i < 0 then '-' :: Nat.toDigits 10 i.natAbs else Nat.toDigits 10 i.toNat

/-- `ustr(v)` for the values that are inserted (objects print as obj<id>) -/
def ustr : Val → Text
  | .none => "None".toList
  | .bool true => "True".toList
  | .bool false => "False".toList
  | .int i => intRepr i
  | .str s => s
  | .obj id _ => "obj".toList ++ Nat.toDigits 10 id
  | .exc _ m => m
  | _ => [Char.ofNat 0xFFFF]      -- containers / callables: their repr is outside the model

def keyError (k : Text) : Exc := ⟨"KeyError".toList, k⟩

def valBeq : Nat → Val → Val → Bool
  | 0, _, _ => false
  | _ + 1, .none, .none => true
  | _ + 1, .bool a, .bool b => a == b
  | _ + 1, .int a, .int b => a == b
  | _ + 1, .bool a, .int b => (if a then 1 else 0) == b
  | _ + 1, .int a, .bool b => a == (if b then 1 else 0)
  | _ + 1, .str a, .str b => a == b
  | _ + 1, .obj a _, .obj b _ => a == b
  | _ + 1, .fn a _, .fn b _ => a == b
  | _ + 1, .tmpl a, .tmpl b => a == b
  | _, _, _ => false

/-! ### frames -/

inductive Found where
  | val (v : Val) (f : Frame)      -- found; the (possibly updated: cache) frame
  | missing                        -- KeyError: try the next frame
  | raise (e : Exc)                -- e.g. Unauthorized from the guard
  deriving Inhabited

def isDenied (env : Env) (obj : Nat) (name : Text) : Bool := env.denied.any (fun p => p.1 == obj && p.2 == name)

def unauthorized (name : Text) : Exc := ⟨"Unauthorized".toList, name⟩

/-- `roman.toRoman n` (1 ≤ n < 5000): greedy over the numeral table -/
def romanTable : List (Nat × Text) :=
  [(1000, ['M']), (900, ['C', 'M']), (500, ['D']), (400, ['C', 'D']), (100, ['C']), (90, ['X', 'C']),
   (50, ['L']), (40, ['X', 'L']), (10, ['X']), (9, ['I', 'X']), (5, ['V']), (4, ['I', 'V']), (1, ['I'])]

def toRoman (n : Nat) : Text :=
  (romanTable.foldl (fun (acc : Text × Nat) (e : Nat × Text) =>
    (acc.1 ++ (List.replicate (acc.2 / e.1) e.2).flatten, acc.2 % e.1)) ([], n)).1

def letterOf (base : Nat) (i : Nat) : Text := [Char.ofNat (base + i)]

/-- the documented per-item variables of sequence_variables, for item `i` -/
def seqItem (sv : SeqVars) (i : Nat) : Val :=
  match sv.items[i]? with
  | some (.tuple [_, v]) => v
  | some v => v
  | none => .none

def seqKey (sv : SeqVars) (i : Nat) : Option Val :=
  match sv.items[i]? with
  | some (.tuple [k, _]) => some k
  | _ => none

/-- `value(index, name)`: the element's attribute / mapping entry -/
def seqValue (sv : SeqVars) (i : Nat) (name : Text) : Option Val :=
  match seqItem sv i with
  | .dict kvs => if sv.mapping then kvs.lookup name else none
  | .obj _ attrs => if sv.mapping then none else attrs.lookup name
  | _ => none

def seqFixed (sv : SeqVars) (suffix : Text) : Option Val :=
  let i := sv.index
  if suffix = "item".toList then some (seqItem sv i)
  else if suffix = "key".toList then seqKey sv i
  else if suffix = "index".toList then some (.int i)
  else if suffix = "number".toList then some (.int (i + 1))
  else if suffix = "letter".toList then some (.str (letterOf 97 i))
  else if suffix = "Letter".toList then some (.str (letterOf 65 i))
  else if suffix = "Roman".toList then (if i + 1 < 5000 then some (.str (toRoman (i + 1))) else none)
  else if suffix = "roman".toList then (if i + 1 < 5000 then some (.str ((toRoman (i + 1)).map Char.toLower)) else none)
  else if suffix = "even".toList then some (.bool (i % 2 == 0))
  else if suffix = "odd".toList then some (.int (i % 2))
  else if suffix = "start".toList then some (.int (if sv.started then 1 else 0))
  else if suffix = "end".toList then some (.int (if sv.ended then 1 else 0))
  else if suffix = "length".toList then some (.int sv.items.length)
  else none

def stripPrefix (p s : Text) : Option Text := if p.isPrefixOf s then some (s.drop p.length) else none

/-- `value(index, name)` as used by the first-x and last-x variables: a missing attribute raises AttributeError, a
non-mapping item under `mapping` TypeError; a missing mapping key is a KeyError, which the
namespace lookup treats as "not in this frame" -/
inductive SVal where
  | val (v : Val)
  | keyMissing
  | raise (e : Exc)

def seqValueStrict (sv : SeqVars) (i : Nat) (name : Text) : SVal :=
  match seqItem sv i with
  | .dict kvs =>
    if sv.mapping then (match kvs.lookup name with | some v => .val v | none => .keyMissing)
    else .raise ⟨"AttributeError".toList, name⟩
  | .obj _ attrs =>
    if sv.mapping then .raise ⟨"TypeError".toList, []⟩
    else (match attrs.lookup name with | some v => .val v | none => .raise ⟨"AttributeError".toList, name⟩)
  | _ => if sv.mapping then .raise ⟨"TypeError".toList, []⟩ else .raise ⟨"AttributeError".toList, name⟩

inductive SeqRes where
  | val (v : Val)
  | missing
  | raise (e : Exc)

def neighbourDiffers (sv : SeqVars) (j : Nat) (x : Text) : SeqRes :=
  match seqValueStrict sv sv.index x with
  | .raise e => .raise e
  | .keyMissing => .missing
  | .val a =>
    match seqValueStrict sv j x with
    | .raise e => .raise e
    | .keyMissing => .missing
    | .val b => .val (.bool (!(valBeq 3 a b)))

/-- `sequence-key` = `items[index][0]`: the key of a 2-tuple (whatever `[0]` gives otherwise) -/
def seqKeyRes (sv : SeqVars) : SeqRes :=
  match sv.items[sv.index]? with
  | some (.tuple (k :: _)) => .val k
  | some (.list (k :: _)) => .val k
  | some (.str (c :: _)) => .val (.str [c])
  | some (.tuple []) => .raise ⟨"IndexError".toList, []⟩
  | some (.list []) => .raise ⟨"IndexError".toList, []⟩
  | some (.str []) => .raise ⟨"IndexError".toList, []⟩
  | some (.bytes (b :: _)) => .val (.int b)     -- `b'..'[0]` is the first byte, an int
  | some (.bytes []) => .raise ⟨"IndexError".toList, []⟩
  | some (.dict _) => .missing          -- KeyError(0): "not in this frame"
  | _ => .raise ⟨"TypeError".toList, []⟩

def ofOpt : Option Val → SeqRes
  | some v => .val v
  | none => .missing

/-- sequence_variables.__getitem__ for the documented names -/
def seqLookup (sv : SeqVars) (key : Text) : SeqRes :=
  match stripPrefix "sequence-var-".toList key with
  | some x => ofOpt (seqValue sv sv.index x)
  | none =>
  match stripPrefix "sequence-".toList key with
  | some suffix => if suffix = "key".toList then seqKeyRes sv else ofOpt (seqFixed sv suffix)
  | none =>
  match stripPrefix "first-".toList key with
  | some x => if sv.started then .val (.int 1) else neighbourDiffers sv (sv.index - 1) x
  | none =>
  match stripPrefix "last-".toList key with
  | some x => if sv.ended then .val (.int 1) else neighbourDiffers sv (sv.index + 1) x
  | none =>
  match sv.prefix_ with
  | some p =>
    (match stripPrefix (p ++ ['_']) key with
     | some suffix => if suffix = "key".toList then seqKeyRes sv else ofOpt (seqFixed sv suffix)
     | none => .missing)
  | none => .missing

/-- replace / add an entry of an association list -/
def setKV (kvs : List (Text × Val)) (k : Text) (v : Val) : List (Text × Val) :=
  kvs.filter (·.1 != k) ++ [(k, v)]

/-- `Add_with_prefix.__setitem__`: the name under which a batch variable is stored a second time when the tag has
a `prefix`: `sequence-step-size` ↦ `p_step_size`, any other name `n` ↦ `p_n` -/
def prefixAlias (p : Text) (name : Text) : Text :=
  match stripPrefix "sequence-".toList name with
  | some rest => p ++ ['_'] ++ rest.map (fun c => if c = '-' then '_' else c)
  | none => p ++ ['_'] ++ name

/-- `pkw[name] = v` -/
def SeqVars.set (sv : SeqVars) (name : Text) (v : Val) : SeqVars :=
  let e := setKV sv.extra name v
  { sv with extra := match sv.prefix_ with
      | some p => setKV e (prefixAlias p name) v
      | none => e }

/-- `X-number` for a stored `X-index` (`sequence_variables.__getitem__` applies the index renderings to every
`…-index` entry of its dictionary; modelled for `number`) -/
def seqDerived (sv : SeqVars) (key : Text) : Option Val :=
  let suffix := "-number".toList
  if suffix.length < key.length && key.drop (key.length - suffix.length) == suffix then
    match sv.extra.lookup (key.take (key.length - suffix.length) ++ "-index".toList) with
    | some (.int i) => some (.int (i + 1))
    | _ => none
  else none

/-- `sequence_variables.__getitem__`: the dictionary first, then the computed variables -/
def seqGet (sv : SeqVars) (key : Text) : SeqRes :=
  match sv.extra.lookup key with
  | some v => .val v
  | none =>
    match seqDerived sv key with
    | some v => .val v
    | none =>
      -- the dictionary starts with previous-sequence = next-sequence = 0 (stored under the prefixed names too)
      let flagNames := ["previous-sequence".toList, "next-sequence".toList]
      let aliased := match sv.prefix_ with
        | some p => flagNames.map (prefixAlias p)
        | none => []
      if flagNames.contains key || aliased.contains key then .val (.int 0)
      else if sv.noIndex then
        -- without an index only the start / end flags (and with them first-x) can be answered
        let isName (n : String) : Bool :=
          key == ("sequence-" ++ n).toList || (match sv.prefix_ with | some p => key == p ++ ['_'] ++ n.toList | none => false)
        if isName "start" then .val (.int (if sv.started then 1 else 0))
        else if isName "end" then .val (.int (if sv.ended then 1 else 0))
        else if (stripPrefix "first-".toList key).isSome && sv.started then .val (.int 1)
        else if (stripPrefix "last-".toList key).isSome && sv.ended then .val (.int 1)
        else .missing
      else seqLookup sv key

/-- `frame[key]` -/
def frameGet (env : Env) (f : Frame) (key : Text) (tr : List Event) : Found × List Event :=
  match f with
  | .bad => (.raise ⟨"TypeError".toList, []⟩, tr)
  | .dict kvs =>
    (match kvs.lookup key with
     | some v => (.val v f, tr)
     | none => (.missing, tr))
  | .seq sv =>
    (match seqGet sv key with
     | .val v => (.val v f, tr)
     | .missing => (.missing, tr)
     | .raise e => (.raise e, tr))
  | .inst v cache =>
    match cache.lookup key with
    | some c => (.val c f, tr)
    | none =>
      if key.head? = some '_' then
        if key = "__str__".toList then (.val (.str (ustr v)) f, tr) else (.missing, tr)
      else
        match v with
        | .obj id attrs =>
          -- the guard (when installed) is asked first, whether or not the attribute exists
          -- (object 0 is the engine's own error namespace of dtml-try, not client data)
          let tr := if env.guardOn && id != 0 then tr ++ [.guard id key] else tr
          if env.guardOn && isDenied env id key then (.raise (unauthorized key), tr)
          else
            (match attrs.lookup key with
             | some a => (.val a (.inst v (cache ++ [(key, a)])), tr)
             | none => (.missing, tr))
        | _ => (.missing, tr)

inductive Looked where
  | val (v : Val) (stack : List Frame)
  | missing
  | raise (e : Exc)
  deriving Inhabited

/-- walk the stack from the top (head) down -/
def lookupStack (env : Env) : List Frame → Text → List Event → Looked × List Event
  | [], _, tr => (.missing, tr)
  | f :: fs, key, tr =>
    match frameGet env f key tr with
    | (.val v f', tr) => (.val v (f' :: fs), tr)
    | (.raise e, tr) => (.raise e, tr)
    | (.missing, tr) =>
      match lookupStack env fs key tr with
      | (.val v fs', tr) => (.val v (f :: fs'), tr)
      | (r, tr) => (r, tr)

/-- `md.has_key(key)` / `key in md`: the walk of `md.getitem(key, 0)` without handing out (or calling) what it finds; an
InstanceDict that answers has filled its cache, a frame that raises something else than KeyError / NameError ends it -/
def hasKey (env : Env) (key : Text) (st : St) : Res Bool × St :=
  match lookupStack env st.stack key st.trace with
  | (.missing, tr) => (.ok false, { st with trace := tr })
  | (.raise e, tr) => (.raise e, { st with trace := tr })
  | (.val _ stack', tr) => (.ok true, { st with stack := stack', trace := tr })

/-- `md._push(f)` and `md._pop(k)` (1 ≤ k ≤ what is there) on the model's stack, whose TOP is the HEAD (`TemplateDict._data`
of the source has the top LAST): what `renderBlk` does inline for dtml-with / let / in (`f :: st.stack`, `st.stack.drop k`) -/
def push (f : Frame) (stack : List Frame) : List Frame := f :: stack
def popN (k : Nat) (stack : List Frame) : List Frame := stack.drop k

/-! ### joining pieces (render_blocks / join_unicode) -/

def latin1Decode (b : List Nat) : Text := b.map Char.ofNat

def decodeBytes (env : Env) (b : List Nat) : Option Text :=
  if env.utf8 then (String.fromUTF8? (ByteArray.mk (b.map UInt8.ofNat).toArray)).map String.toList
  else some (latin1Decode b)

def decodeAll (env : Env) : List Piece → Option Text
  | [] => some []
  | .text s :: t => (decodeAll env t).map (s ++ ·)
  | .bytes b :: t =>
    match decodeBytes env b, decodeAll env t with
    | some s, some r => some (s ++ r)
    | _, _ => none

/-- `join_unicode(pieces, encoding)`: always text; bytes are decoded with the template encoding -/
def joinUnicode (env : Env) (ps : List Piece) : Res Piece :=
  match decodeAll env ps with
  | some s => .ok (.text s)
  | none => .raise ⟨"UnicodeDecodeError".toList, []⟩

/-- what `render_blocks` returns for the collected (non-empty) pieces: '' for none, the piece
itself for one, `join_unicode` of them otherwise -/
def joinPieces (env : Env) (ps : List Piece) : Res Piece :=
  match ps with
  | [] => .ok (.text [])
  | [p] => .ok p
  | _ => joinUnicode env ps

def pieceOfVal (v : Val) : Piece :=
  match v with
  | .bytes b => .bytes b
  | v => .text (ustr v)

def pieceEmpty : Piece → Bool
  | .text s => s.isEmpty
  | .bytes b => b.isEmpty

def valOfPiece : Piece → Val
  | .text s => .str s
  | .bytes b => .bytes b

def escChar (c : Char) : Text :=
  if c = '&' then "&amp;".toList
  else if c = '<' then "&lt;".toList
  else if c = '>' then "&gt;".toList
  else if c = '"' then "&quot;".toList
  else if c = '\'' then "&#x27;".toList
  else [c]

def htmlQuote (env : Env) (p : Piece) : Res Piece :=
  match p with
  | .text s => .ok (.text (s.flatMap escChar))
  | .bytes b =>
    match decodeBytes env b with
    | some s => .ok (.text (s.flatMap escChar))
    | none => .raise ⟨"UnicodeDecodeError".toList, []⟩

/-! ### exception classes -/

/-- Try.match_base: is `name` the name of a (transitive) base class of `cls`? -/
def matchBase (env : Env) : Nat → Text → Text → Bool
  | 0, _, _ => false
  | fuel + 1, cls, name =>
    match env.classes.lookup cls with
    | some bases => bases.any (fun b => b == name || matchBase env fuel b name)
    | none => false

/-- Try.find_handler -/
def findHandler (env : Env) (handlers : List (Text × List Blk)) (cls : Text) : Option (List Blk) :=
  (handlers.find? (fun h => h.1 == cls || h.1.isEmpty || matchBase env 16 cls h.1)).map (·.2)

/-! ### dtml-in: sort, reverse, batch window -/

/-- a sort key as `sort_sequence` compares it -/
inductive SKey where
  | smallest               -- None, a missing attribute / key, a callable that raised
  | int (i : Int)
  | str (s : Text)
  | bad                    -- containers, objects …: their comparison is outside the model
  deriving Repr, DecidableEq, Inhabited

/-- `a <= b` on strings: lexicographic by code point -/
def textLe : Text → Text → Bool
  | [], _ => true
  | _ :: _, [] => false
  | a :: as, b :: bs => if a.toNat < b.toNat then true else if b.toNat < a.toNat then false else textLe as bs

/-- kinds of keys in the order in which the model lists them (only one of numbers / strings occurs in a sequence
that can be sorted at all, see `sortable`) -/
def SKey.rank : SKey → Nat
  | .smallest => 0
  | .int _ => 1
  | .str _ => 2
  | .bad => 3

/-- `a <= b` on keys: `_Smallest` below everything, numbers by value, strings by code points -/
def SKey.le : SKey → SKey → Bool
  | .int a, .int b => decide (a ≤ b)
  | .str a, .str b => textLe a b
  | a, b => decide (a.rank ≤ b.rank)

def keyOfVal : Val → SKey
  | .none => .smallest
  | .int i => .int i
  | .bool b => .int (if b then 1 else 0)
  | .str s => .str s
  | _ => .bad

/-- the keys can be compared with each other: no container / object keys, and not numbers with strings -/
def sortable (ks : List SKey) : Bool :=
  !ks.contains .bad &&
  !(ks.any (fun k => match k with | .int _ => true | _ => false) &&
    ks.any (fun k => match k with | .str _ => true | _ => false))

def callEvent (id : Nat) (st : St) : St := { st with trace := st.trace ++ [.call id], calls := st.calls + 1 }

/-- the sort key of one element: `getattr(v, key, None)` / `v.get(key)` — a plain read, not through the guard —
of the element (of the value of a (key, value) pair); a callable is called, and counts as smallest when it raises -/
def sortKeyOf (env : Env) (mapping : Bool) (key : Text) (item : Val) (st : St) : Res SKey × St :=
  let v := match item with
    | .tuple [_, v] => v
    | v => v
  let raw : Res Val :=
    if mapping then
      (match v with
       | .dict kvs => .ok ((kvs.lookup key).getD .none)
       | _ => .raise ⟨"AttributeError".toList, "get".toList⟩)
    else
      .ok (match v with
        | .obj _ attrs => (attrs.lookup key).getD .none
        | _ => .none)
  match raw with
  | .ok (.fn id r) =>
    -- `k = k()`: a namespace callable (never a probe); an exception from it makes the key `_Smallest`
    let st' := callEvent id st
    if env.faults.contains st.calls then (.ok .smallest, st') else (.ok (keyOfVal r), st')
  | .ok v => (.ok (keyOfVal v), st)
  | .raise e => (.raise e, st)
  | .ret v => (.ret v, st)
  | .oom => (.oom, st)

/-- decorate: the key of every element, in order -/
def sortKeys (env : Env) (mapping : Bool) (key : Text) : List Val → St → Res (List (SKey × Val)) × St
  | [], st => (.ok [], st)
  | x :: xs, st =>
    match sortKeyOf env mapping key x st with
    | (.ok k, st') =>
      (match sortKeys env mapping key xs st' with
       | (.ok r, st'') => (.ok ((k, x) :: r), st'')
       | r => r)
    | (.raise e, st') => (.raise e, st')
    | (.ret v, st') => (.ret v, st')
    | (.oom, st') => (.oom, st')

/-- the order `list.sort(key=…)` gives the decorated elements: those with a real key stably by key; those whose key is
`_Smallest` (None, missing, a callable that raised) in front of them — in the reverse of their original order, which is
what CPython's sort does with a marker that is "less than" everything including itself (sequences shorter than 64
elements: one insertion-sorted run; the mutual order of these elements is not specified by the documentation) -/
def sortDec (dec : List (SKey × Val)) : List (SKey × Val) :=
  (dec.filter (fun d => d.1 == .smallest)).reverse ++
  (dec.filter (fun d => !(d.1 == .smallest))).mergeSort (fun a b => SKey.le a.1 b.1)

/-- `sort_sequence` (one key, default comparison, ascending): a stable sort by key -/
def sortPart (env : Env) (o : InOpts) (x : InXOpts) (items : List Val) (st : St) : Res (List Val) × St :=
  match x.sortKey with
  | none => (.ok items, st)
  | some k =>
    (match sortKeys env o.mapping k items st with
     | (.ok dec, st') =>
       if decide (dec.length ≥ 2) && !sortable (dec.map (·.1)) then (.raise ⟨"TypeError".toList, []⟩, st')
       else (.ok ((sortDec dec).map (·.2)), st')
     | (.raise e, st') => (.raise e, st')
     | (.ret v, st') => (.ret v, st')
     | (.oom, st') => (.oom, st'))

/-- `sort_sequence` followed by `reverse_sequence` -/
def arrange (env : Env) (o : InOpts) (x : InXOpts) (items : List Val) (st : St) : Res (List Val) × St :=
  match sortPart env o x items st with
  | (.ok xs, st') => (.ok (if x.reverse then xs.reverse else xs), st')
  | r => r

/-- what the name of a named sequence stands for inside the loop: `cache = {name: sequence}` holds the sequence after
`sequence_ensure_subscription` — for a mapping that is a wrapper around the iteration over its keys (a sequence of the
keys: no longer a mapping), every other sequence of the model is kept as it is -/
def seqCacheVal (v : Val) : Val :=
  match v with
  | .dict kvs => .list (kvs.map fun kv => Val.str kv.1)
  | v => v

/-- the cache of a sequence found by name: `{name: sequence}` below the sequence variables -/
def cacheOf (src : Src) (v : Val) : List Frame :=
  match src with
  | .name n => [Frame.dict [(n, seqCacheVal v)]]
  | .expr _ => []

/-- the window and parameters of a batched rendering: `first` = start - 1 and `stop` = end (0-based, exclusive) -/
structure BWin where
  first : Nat
  stop : Nat
  sz : Int
  orphan : Int
  overlap : Int
  deriving Repr, Inhabited

def bwinOf (b : BatchP) (len : Nat) : BWin :=
  let w := Batch.window b.start b.end_ b.size b.orphan ⟨len, false⟩
  { first := (w.1 - 1).toNat, stop := w.2.1.toNat, sz := w.2.2, orphan := b.orphan, overlap := b.overlap }

def txt (s : String) : Text := s.toList

/-- what `renderwb` stores before anything is rendered -/
def batchInit (sv : SeqVars) (w : BWin) : SeqVars :=
  (((((((((sv.set (txt "previous-sequence") (.int 0)).set (txt "next-sequence") (.int 0)).set
    (txt "sequence-step-size") (.int w.sz)).set
    (txt "sequence-step-overlap") (.int w.overlap)).set
    (txt "sequence-step-start") (.int (w.first + 1))).set
    (txt "sequence-step-end") (.int w.stop)).set
    (txt "sequence-step-start-index") (.int w.first)).set
    (txt "sequence-step-end-index") (.int (Int.ofNat w.stop - 1))).set
    (txt "sequence-step-orphan") (.int w.orphan))

/-- the previous batch: `opt(0, first + overlap, size, orphan, sequence)` -/
def prevInfo (sv : SeqVars) (w : BWin) (flag : Bool) : SeqVars :=
  let p := Batch.opt 0 (w.first + w.overlap) w.sz w.orphan ⟨sv.items.length, false⟩
  let sv := if flag then sv.set (txt "previous-sequence") (.int 1) else sv
  ((sv.set (txt "previous-sequence-start-index") (.int (p.1 - 1))).set
    (txt "previous-sequence-end-index") (.int (p.2.1 - 1))).set
    (txt "previous-sequence-size") (.int (p.2.1 + 1 - p.1))

/-- the next batch: `opt(end + 1 - overlap, 0, size, orphan, sequence)` -/
def nextInfo (sv : SeqVars) (w : BWin) (flag : Bool) : SeqVars :=
  let n := Batch.opt (w.stop + 1 - w.overlap) 0 w.sz w.orphan ⟨sv.items.length, false⟩
  let sv := if flag then sv.set (txt "next-sequence") (.int 1) else sv
  ((sv.set (txt "next-sequence-start-index") (.int (n.1 - 1))).set
    (txt "next-sequence-end-index") (.int (n.2.1 - 1))).set
    (txt "next-sequence-size") (.int (n.2.1 + 1 - n.1))

/-- are there elements after the window?  (`sequence[end]` succeeds) -/
def moreAfter (sv : SeqVars) (w : BWin) : Bool := decide (w.stop < sv.items.length)

/-- the batching information provided on the first and on the last displayed element -/
def batchInfo (sv : SeqVars) (w : BWin) (i : Nat) : SeqVars :=
  let sv := if w.first > 0 then prevInfo sv w (i == w.first) else sv
  if moreAfter sv w then nextInfo sv w (i + 1 == w.stop) else sv

/-- the variables at the start of iteration `i` of a batched loop -/
def batchStep (sv : SeqVars) (w : BWin) (i : Nat) : SeqVars :=
  let sv := (sv.set (txt "previous-sequence") (.int 0)).set (txt "next-sequence") (.int 0)
  let sv := if i == w.first || i + 1 == w.stop then batchInfo sv w i else sv
  if i + 1 == w.stop then { sv with ended := true } else sv

/-- `sequence-start` is cleared once the first element of the window has been rendered (or skipped) -/
def afterItem (sv : SeqVars) (w : BWin) (i : Nat) : SeqVars :=
  if i == w.first then { sv with started := false } else sv

/-- what `int_param` makes of the value of a batch parameter given by name -/
inductive PInt where
  | ok (i : Int)
  | bad            -- not a number and not a string: handed on as it is, `opt()` fails on it with TypeError
  | valueError     -- a string that is not a numeral: `int(v)` raises

def digitsVal : Text → Option Nat
  | [] => none
  | cs => if cs.all Char.isDigit then some (cs.foldl (fun a c => a * 10 + (c.toNat - 48)) 0) else none

def paramInt : Val → PInt
  | .int i => .ok i
  | .bool b => .ok (if b then 1 else 0)
  | .str ('-' :: cs) => (match digitsVal cs with | some n => .ok (-(n : Int)) | none => .valueError)
  | .str cs => (match digitsVal cs with | some n => .ok n | none => .valueError)
  | _ => .bad

def setParam (bp : BatchP) (p : Text) (i : Int) : BatchP :=
  if p = "start".toList then { bp with start := i }
  else if p = "end".toList then { bp with end_ := i }
  else if p = "size".toList then { bp with size := i }
  else if p = "overlap".toList then { bp with overlap := i }
  else if p = "orphan".toList then { bp with orphan := i }
  else bp

/-- `reverse_sequence` when asked for -/
def applyReverse (rev : Bool) (xs : List Val) : List Val := if rev then xs.reverse else xs

/-! ### the interpreter -/

/-- what a probe sees of a frame: its kind, the keys of a dictionary, the id of an instance -/
def frameSummary : Frame → Text × List Text × Nat
  | .dict kvs => ("dict".toList, kvs.map (·.1), 0)
  | .inst (.obj id _) _ => ("inst".toList, [], id)
  | .inst _ _ => ("inst".toList, [], 0)
  | .seq _ => ("seq".toList, [], 0)
  | .bad => ("bad".toList, [], 0)

/-- callables with an id of 1000 or more are probes: they record the namespace and return None -/
def probeBase : Nat := 1000

/-- invoke a namespace callable -/
def invoke (env : Env) (id : Nat) (result : Val) (st : St) : Res Val × St :=
  if id ≥ probeBase then
    (.ok .none, { st with trace := st.trace ++ [.snap (st.stack.map frameSummary) st.level] })
  else
    let st' := { st with trace := st.trace ++ [.call id], calls := st.calls + 1 }
    if env.faults.contains st.calls then (.raise env.faultExc, st') else (.ok result, st')

/-- join the pieces a body produced into what the tag returns; other outcomes pass through -/
def joinRes (env : Env) (r : Res (List Piece)) (st : St) : Res Piece × St :=
  match r with
  | .ok ps =>
    (match joinPieces env ps with
     | .ok p => (.ok p, st)
     | .raise e => (.raise e, st)
     | _ => (.oom, st))
  | .raise e => (.raise e, st)
  | .ret v => (.ret v, st)
  | .oom => (.oom, st)

/-- a tag's result as the list of pieces it contributes (empty results are not appended) -/
def oneRes (r : Res Piece × St) : Res (List Piece) × St :=
  match r with
  | (.ok p, st) => (.ok (if pieceEmpty p then [] else [p]), st)
  | (.raise e, st) => (.raise e, st)
  | (.ret v, st) => (.ret v, st)
  | (.oom, st) => (.oom, st)

/-- `join_unicode([a, b])` of two results (try/else, try/finally) -/
def join2 (env : Env) (p q : Piece) (st : St) : Res (List Piece) × St :=
  match joinUnicode env [p, q] with
  | .ok j => (.ok (if pieceEmpty j then [] else [j]), st)
  | .raise e => (.raise e, st)
  | _ => (.oom, st)

/-- what dtml-var does with the value once it has it: null replacement, html quoting, insertion -/
def insertVal (env : Env) (hq : Bool) (null : Option Text) (v : Val) (st : St) : Res (List Piece) × St :=
  let one (p : Piece) : List Piece := if pieceEmpty p then [] else [p]
  if null.isSome && !truthy v && (match v with | .int _ => false | .bool _ => false | _ => true) then
    (.ok (one (.text (null.getD []))), st)
  else if hq then
    (match htmlQuote env (pieceOfVal v) with
     | .ok p => (.ok (one p), st)
     | .raise e => (.raise e, st)
     | _ => (.oom, st))
  else (.ok (one (pieceOfVal v)), st)

mutual

/-- `md.getitem(key, call)` -/
def getitem (env : Env) : Nat → Text → Bool → St → Res Val × St
  | 0, _, _, st => (.oom, st)
  | fuel + 1, key, call, st =>
    match lookupStack env st.stack key st.trace with
    | (.missing, tr) => (.raise (keyError key), { st with trace := tr })
    | (.raise e, tr) => (.raise e, { st with trace := tr })
    | (.val v stack', tr) =>
      let st := { st with stack := stack', trace := tr }
      if call then
        match v with
        | .fn id r => invoke env id r st
        | .tmpl id => callSub env fuel id st
        | v => (.ok v, st)
      else (.ok v, st)
termination_by structural fuel => fuel

/-- a template invoked by name from another template: `e(None, md)` -/
def callSub (env : Env) : Nat → Nat → St → Res Val × St
  | 0, _, st => (.oom, st)
  | fuel + 1, id, st =>
    match env.templates[id]? with
    | none => (.raise ⟨"TypeError".toList, []⟩, st)
    | some t =>
      let pushed1 := if t.globals.isEmpty then [] else [Frame.dict t.globals]
      if st.level > 200 then
        -- the pushed defaults are popped again before the error is raised
        (.raise ⟨"SystemError".toList, "infinite recursion in document template".toList⟩, st)
      else
        let pushed2 := if t.vars.isEmpty then [] else [Frame.dict t.vars]
        let n := pushed1.length + pushed2.length
        let st1 := { st with stack := pushed2 ++ pushed1 ++ st.stack, level := st.level + 1 }
        let (r, st2) := renderBlocks env fuel t.blocks st1
        let st3 := { st2 with stack := st2.stack.drop n, level := st.level }
        match r with
        | .ok ps =>
          (match joinPieces env ps with
           | .ok p => (.ok (valOfPiece p), st3)
           | .raise e => (.raise e, st3)
           | _ => (.oom, st3))
        | .ret v => (.ok v, st3)
        | .raise e => (.raise e, st3)
        | .oom => (.oom, st3)
termination_by structural fuel => fuel

def evalExpr (env : Env) : Nat → Expr → St → Res Val × St
  | 0, _, st => (.oom, st)
  | fuel + 1, e, st =>
    match e with
    | .lit v => (.ok v, st)
    | .name n =>
      (match getitem env fuel n false st with
       | (.raise e, st') => if e.cls = "KeyError".toList then (.raise ⟨"NameError".toList, n⟩, st') else (.raise e, st')
       | r => r)
    | .under n => getitem env fuel n true st
    | .not a =>
      (match evalExpr env fuel a st with
       | (.ok v, st') => (.ok (.bool (!truthy v)), st')
       | r => r)
    | .eq a b =>
      (match evalExpr env fuel a st with
       | (.ok va, st') =>
         (match evalExpr env fuel b st' with
          | (.ok vb, st'') => (.ok (.bool (valBeq 3 va vb)), st'')
          | r => r)
       | r => r)
    | .call f =>
      (match evalExpr env fuel f st with
       | (.ok (.fn id r), st') => invoke env id r st'
       | (.ok _, st') => (.raise ⟨"TypeError".toList, []⟩, st')
       | r => r)
    | .attr a name =>
      (match evalExpr env fuel a st with
       | (.ok (.obj id attrs), st') =>
         let st'' := if env.guardOn then { st' with trace := st'.trace ++ [.guard id name] } else st'
         if env.guardOn && isDenied env id name then (.raise (unauthorized name), st'')
         else
           (match attrs.lookup name with
            | some v => (.ok v, st'')
            | none => (.raise ⟨"AttributeError".toList, name⟩, st''))
       | (.ok _, st') => (.raise ⟨"AttributeError".toList, name⟩, st')
       | r => r)
    | .item a k =>
      (match evalExpr env fuel a st with
       | (.ok (.dict kvs), st') =>
         (match k with
          | .str s => (match kvs.lookup s with
              | some v => (.ok v, st')
              | none => (.raise (keyError s), st'))
          | _ => (.raise (keyError []), st'))
       | (.ok (.list xs), st') =>
         (match k with
          | .int i => (match (if i ≥ 0 then xs[i.toNat]? else none) with
              | some v => (.ok v, st')
              | none => (.raise ⟨"IndexError".toList, []⟩, st'))
          | _ => (.raise ⟨"TypeError".toList, []⟩, st'))
       | (.ok _, st') => (.raise ⟨"TypeError".toList, []⟩, st')
       | r => r)
termination_by structural fuel => fuel

/-- value of a tag's `name` / `expr`: names are looked up with auto-call -/
def evalSrc (env : Env) : Nat → Src → St → Res Val × St
  | 0, _, st => (.oom, st)
  | fuel + 1, .name n, st => getitem env fuel n true st
  | fuel + 1, .expr e, st => evalExpr env fuel e st
termination_by structural fuel => fuel

/-- dtml-var: obtain the value (`md[name]` calls callables / renders templates; an expression is evaluated) and insert it -/
def fetchVar (env : Env) : Nat → Src → Bool → Option Text → St → Res (List Piece) × St
  | 0, _, _, _, st => (.oom, st)
  | fuel + 1, src, hq, null, st =>
    match evalSrc env fuel src st with
    | (.ok v, st') => insertVal env hq null v st'
    | (.raise e, st') => (.raise e, st')
    | (.ret v, st') => (.ret v, st')
    | (.oom, st') => (.oom, st')
termination_by structural fuel => fuel

/-- render the blocks in order, collecting the non-empty pieces -/
def renderBlocks (env : Env) : Nat → List Blk → St → Res (List Piece) × St
  | 0, _, st => (.oom, st)
  | _ + 1, [], st => (.ok [], st)
  | fuel + 1, b :: rest, st =>
    match renderBlk env fuel b st with
    | (.ok ps, st1) =>
      (match renderBlocks env fuel rest st1 with
       | (.ok qs, st2) => (.ok (ps ++ qs), st2)
       | r => r)
    | (.raise e, st1) => (.raise e, st1)
    | (.ret v, st1) => (.ret v, st1)
    | (.oom, st1) => (.oom, st1)
termination_by structural fuel => fuel

/-- body of a block with one more frame on the namespace; the frame is popped on every exit path -/
def withFrame (env : Env) : Nat → Frame → List Blk → St → Res (List Piece) × St
  | 0, _, _, st => (.oom, st)
  | fuel + 1, f, body, st =>
    let (r, st') := renderBlocks env fuel body { st with stack := f :: st.stack }
    (r, { st' with stack := st'.stack.drop 1 })
termination_by structural fuel => fuel

/-- render a body and join it into one piece (what a tag object returns) -/
def renderJoined (env : Env) : Nat → List Blk → St → Res Piece × St
  | 0, _, st => (.oom, st)
  | fuel + 1, body, st =>
    let (r, st') := renderBlocks env fuel body st
    joinRes env r st'
termination_by structural fuel => fuel

/-- a body rendered inside one more frame, joined -/
def framed (env : Env) : Nat → Frame → List Blk → St → Res Piece × St
  | 0, _, _, st => (.oom, st)
  | fuel + 1, f, body, st =>
    let (r, st') := withFrame env fuel f body st
    joinRes env r st'
termination_by structural fuel => fuel

/-- the `'i'` block: conditions in order inside the cache frame (already pushed: top of stack) -/
def condLoop (env : Env) : Nat → List (Src × List Blk) → Option (List Blk) → St → Res (List Piece) × St
  | 0, _, _, st => (.oom, st)
  | fuel + 1, [], els, st =>
    (match els with
     | some b => renderBlocks env fuel b st
     | none => (.ok [], st))
  | fuel + 1, (src, body) :: rest, els, st =>
    let decide (v : Val) (st : St) : Res (List Piece) × St :=
      if truthy v then renderBlocks env fuel body st else condLoop env fuel rest els st
    match src with
    | .name n =>
      (match getitem env fuel n true st with
       | (.ok v, st') =>
         -- cache[n] = cond : the cache is the top frame
         let st'' := match st'.stack with
           | .dict kvs :: fs => { st' with stack := .dict (kvs.filter (·.1 != n) ++ [(n, v)]) :: fs }
           | _ => st'
         decide v st''
       | (.raise e, st') =>
         if e.cls = "KeyError".toList && e.msg = n then decide .none st' else (.raise e, st')
       | (.ret v, st') => (.ret v, st')
       | (.oom, st') => (.oom, st'))
    | .expr e =>
      (match evalExpr env fuel e st with
       | (.ok v, st') => decide v st'
       | (.raise e, st') => (.raise e, st')
       | (.ret v, st') => (.ret v, st')
       | (.oom, st') => (.oom, st'))
termination_by structural fuel => fuel

/-- does the item guard refuse element `i`? (only asked when a guard is installed) -/
def itemDenied (env : Env) (sv : SeqVars) (i : Nat) : Bool :=
  env.guardOn && (match sv.items[i]? with
    | some (.obj id _) => env.deniedItems.contains id
    | _ => false)

/-- `sequence-start` at element `i`: set before the loop, cleared after element 0 has been rendered
— or when element 1 is skipped as unauthorized (so it stays set while a refused first element
is being skipped) -/
def startedAt (env : Env) (o : InOpts) (sv : SeqVars) (i : Nat) : Bool :=
  if i == 0 then true
  else o.skipUnauth && itemDenied env sv 0 && !(decide (i ≥ 2) && itemDenied env sv 1)

/-- one iteration of dtml-in: the item is pushed (unless no_push_item / a string), the body rendered -/
def inIter (env : Env) : Nat → SeqVars → InOpts → List Blk → Nat → St → Res Piece × St
  | 0, _, _, _, _, st => (.oom, st)
  | fuel + 1, sv, o, body, i, st =>
    let client := seqItem sv i
    let isStr := match sv.items[i]? with
      | some (.str _) => true | some (.bytes _) => true | _ => false
    if o.noPush then renderJoined env fuel body st
    else if o.mapping then
      framed env fuel (match client with | .dict kvs => Frame.dict kvs | _ => Frame.bad) body st
    else if isStr then renderJoined env fuel body st
    else framed env fuel (.inst client []) body st
termination_by structural fuel => fuel

/-- the iterations of an unbatched dtml-in (renderwob), items `i ..` -/
def inLoop (env : Env) : Nat → SeqVars → InOpts → List Blk → Nat → St → Res (List Piece) × St
  | 0, _, _, _, _, st => (.oom, st)
  | fuel + 1, sv, o, body, i, st =>
    if i ≥ sv.items.length then (.ok [], st)
    else
      -- with a guard installed every element is fetched through guarded_getitem(sequence, index)
      let st := if env.guardOn then { st with trace := st.trace ++ [.gitem 0 i] } else st
      if itemDenied env sv i then
        if o.skipUnauth then inLoop env fuel sv o body (i + 1) st
        else (.raise ⟨"Unauthorized".toList, "item".toList⟩, st)
      else
      -- pkw['sequence-end'], pkw['sequence-index']: the sequence-variables frame is the top frame
      let sv' := { sv with index := i, ended := sv.ended || i + 1 == sv.items.length, started := startedAt env o sv i }
      let st1 := match st.stack with
        | .seq _ :: fs => { st with stack := .seq sv' :: fs }
        | _ => st
      match inIter env fuel sv' o body i st1 with
      | (.ok p, st2) =>
        (match inLoop env fuel sv' o body (i + 1) st2 with
         | (.ok ps, st3) => (.ok (p :: ps), st3)
         | r => r)
      | (.raise e, st2) => (.raise e, st2)
      | (.ret v, st2) => (.ret v, st2)
      | (.oom, st2) => (.oom, st2)
termination_by structural fuel => fuel

/-- the iterations of a batched dtml-in (`renderwb`, loop mode): elements `i ..` of the window.  The sequence
variables are one dictionary that the loop keeps updating, so they are carried from one iteration to the next -/
def inLoopB (env : Env) : Nat → SeqVars → InOpts → BWin → List Blk → Nat → St → Res (List Piece) × St
  | 0, _, _, _, _, _, st => (.oom, st)
  | fuel + 1, sv, o, w, body, i, st =>
    if i ≥ w.stop then (.ok [], st)
    else
      let sv1 := batchStep sv w i
      let st := if env.guardOn then { st with trace := st.trace ++ [.gitem 0 i] } else st
      if itemDenied env sv1 i then
        if o.skipUnauth then inLoopB env fuel (afterItem sv1 w i) o w body (i + 1) st
        else (.raise ⟨"Unauthorized".toList, "item".toList⟩, st)
      else
      let sv2 := { sv1 with index := i }
      let st1 := match st.stack with
        | .seq _ :: fs => { st with stack := .seq sv2 :: fs }
        | _ => st
      match inIter env fuel sv2 o body i st1 with
      | (.ok p, st2) =>
        (match inLoopB env fuel (afterItem sv2 w i) o w body (i + 1) st2 with
         | (.ok ps, st3) => (.ok (p :: ps), st3)
         | r => r)
      | (.raise e, st2) => (.raise e, st2)
      | (.ret v, st2) => (.ret v, st2)
      | (.oom, st2) => (.oom, st2)
termination_by structural fuel => fuel

/-- a batched rendering (`renderwb` from the point where the variables are pushed): the frame of the sequence
variables (on top of the cache of a named sequence) is pushed; then either the section is rendered once for the previous
/ next batch (`previous` / `next` attribute; the else part when there is no such batch), or the elements of the window
are rendered in turn and joined; the pushed frames are popped on every path -/
def inBatch (env : Env) : Nat → SeqVars → InOpts → BatchP → BWin → List Blk → Option (List Blk) → List Frame → St →
    Res Piece × St
  | 0, _, _, _, _, _, _, _, st => (.oom, st)
  | fuel + 1, sv0, o, bp, w, body, els, cache, st =>
    let svN := { sv0 with noIndex := true }
    let res : Res Piece × St :=
      if bp.previous then
        (if w.first > 0 then
           renderJoined env fuel body { st with stack := (Frame.seq (prevInfo svN w true) :: cache) ++ st.stack }
         else
           (match els with
            | some e => renderJoined env fuel e { st with stack := (Frame.seq svN :: cache) ++ st.stack }
            | none => (.ok (.text []), { st with stack := (Frame.seq svN :: cache) ++ st.stack })))
      else if bp.next then
        (if moreAfter sv0 w then
           renderJoined env fuel body { st with stack := (Frame.seq (nextInfo svN w true) :: cache) ++ st.stack }
         else
           (match els with
            | some e => renderJoined env fuel e { st with stack := (Frame.seq svN :: cache) ++ st.stack }
            | none => (.ok (.text []), { st with stack := (Frame.seq svN :: cache) ++ st.stack })))
      else
        (match inLoopB env fuel sv0 o w body w.first { st with stack := (Frame.seq sv0 :: cache) ++ st.stack } with
         | (.ok ps, s) =>
           (match joinUnicode env ps with
            | .ok p => (.ok p, s)
            | .raise e => (.raise e, s)
            | _ => (.oom, s))
         | (.raise e, s) => (.raise e, s)
         | (.ret x, s) => (.ret x, s)
         | (.oom, s) => (.oom, s))
    (res.1, { res.2 with stack := res.2.stack.drop (cache.length + 1) })
termination_by structural fuel => fuel

/-- the batch parameters given by variable name, resolved in order (`int_param`: `md[name]`, a string is converted
with `int`).  For `start` every failure — an undefined name, a callable that raises, a string that is no numeral — is
swallowed and 1 is taken; for the other parameters it propagates.  A value that is neither a number nor a string is
handed on and makes `opt()` fail with TypeError after all parameters have been resolved (the flag) -/
def resolveNames (env : Env) : Nat → List (Text × Text) → BatchP → Bool → St → Res (BatchP × Bool) × St
  | 0, _, _, _, st => (.oom, st)
  | _ + 1, [], bp, bad, st => (.ok (bp, bad), st)
  | fuel + 1, (p, n) :: rest, bp, bad, st =>
    let isStart := p == "start".toList
    match getitem env fuel n true st with
    | (.ok v, st') =>
      (match paramInt v with
       | .ok i => resolveNames env fuel rest (setParam bp p i) bad st'
       | .bad => resolveNames env fuel rest bp true st'
       | .valueError =>
         if isStart then resolveNames env fuel rest (setParam bp p 1) bad st'
         else (.raise ⟨"ValueError".toList, [Char.ofNat 0xFFFF]⟩, st'))   -- (CPython's message text is outside the model)
    | (.raise e, st') =>
      if isStart then resolveNames env fuel rest (setParam bp p 1) bad st' else (.raise e, st')
    | (.ret v, st') =>
      if isStart then resolveNames env fuel rest (setParam bp p 1) bad st' else (.ret v, st')
    | (.oom, st') => (.oom, st')
termination_by structural fuel => fuel

/-- the sort key of this rendering: the value of `sort_expr` (a string), else the `sort=` attribute -/
def evalSortKey (env : Env) : Nat → InXOpts → St → Res (Option Text) × St
  | 0, _, st => (.oom, st)
  | fuel + 1, x, st =>
    match x.sortExpr with
    | none => (.ok x.sortKey, st)
    | some e =>
      (match evalExpr env fuel e st with
       | (.ok (.str s), st') => (.ok (some s), st')
       | (.ok _, st') => (.raise ⟨"AttributeError".toList, "find".toList⟩, st')
       | (.raise ex, st') => (.raise ex, st')
       | (.ret v, st') => (.ret v, st')
       | (.oom, st') => (.oom, st'))
termination_by structural fuel => fuel

/-- is the sequence reversed in this rendering?  `reverse_expr` true, or else the `reverse` attribute -/
def evalReverse (env : Env) : Nat → InXOpts → St → Res Bool × St
  | 0, _, st => (.oom, st)
  | fuel + 1, x, st =>
    match x.reverseExpr with
    | none => (.ok x.reverse, st)
    | some e =>
      (match evalExpr env fuel e st with
       | (.ok v, st') => (.ok (truthy v || x.reverse), st')
       | (.raise ex, st') => (.raise ex, st')
       | (.ret v, st') => (.ret v, st')
       | (.oom, st') => (.oom, st'))
termination_by structural fuel => fuel

/-- the class a dtml-raise raises: by name (unknown names give RuntimeError), or by expression (`cls` is then the tag's
`__name__`: the text of the expression).  An expression that raises falls back to the class of that name, else to
InvalidErrorTypeExpression; a value that is not an exception class reaches `upgradeException`, whose `t.__name__` fails:
AttributeError (CPython's message text for it is outside the model, as for all its own errors). -/
def raiseClass (env : Env) : Nat → Text → Option Expr → St → Option Text × St
  | 0, _, _, st => (none, st)              -- out of fuel
  | fuel + 1, cls, clsExpr, st =>
    match clsExpr with
    | none => (some (if (env.classes.lookup cls).isSome then cls else "RuntimeError".toList), st)
    | some e =>
      (match evalExpr env fuel e st with
       | (.ok (.exc c _), st') => (some c, st')
       | (.ok _, st') => (some "AttributeError".toList, st')
       | (.oom, st') => (none, st')
       | (_, st') => (some (if (env.classes.lookup cls).isSome then cls else "InvalidErrorTypeExpression".toList), st'))
termination_by structural fuel => fuel

def renderBlk (env : Env) : Nat → Blk → St → Res (List Piece) × St
  | 0, _, st => (.oom, st)
  | fuel + 1, b, st =>
    let one (p : Piece) : List Piece := if pieceEmpty p then [] else [p]
    match b with
    | .lit s => (.ok (one (.text s)), st)
    | .comment => (.ok [], st)
    | .var src hq missing null =>
      (match src with
       | .name n =>
         if missing.isSome || null.isSome then
           -- Var.render (the full path): `if name in md:` — a lookup that calls nothing — then `md[name]`
           (match lookupStack env st.stack n st.trace with
            | (.missing, tr) =>
              (match missing with
               | some m => (.ok (one (.text m)), { st with trace := tr })
               | none => (.raise (keyError n), { st with trace := tr }))
            | (.raise e, tr) => (.raise e, { st with trace := tr })
            | (.val _ stack', tr) => fetchVar env fuel src hq null { st with stack := stack', trace := tr })
         else fetchVar env fuel src hq null st       -- the simple forms: one `md[name]`
       | .expr _ => fetchVar env fuel src hq null st)
    | .call src =>
      -- ('i', expr, None): one condition, no body
      let (r, st') := condLoop env fuel [(src, [])] none { st with stack := .dict [] :: st.stack }
      let st'' := { st' with stack := st'.stack.drop 1 }
      (match r with
       | .ok _ => (.ok [], st'')
       | r => (r, st''))
    | .cond conds els =>
      let (r, st') := condLoop env fuel conds els { st with stack := .dict [] :: st.stack }
      (r, { st' with stack := st'.stack.drop 1 })
    | .unless_ src body =>
      -- ('i', cond, None, body): a true condition renders nothing, otherwise the else part
      let (r, st') := condLoop env fuel [(src, [])] (some body) { st with stack := .dict [] :: st.stack }
      (r, { st' with stack := st'.stack.drop 1 })
    | .in_ src o body els =>
      (match evalSrc env fuel src st with
       | (.ok v, st') =>
         let items : Option (List Val) := match v with
           | .list xs => some xs
           | .tuple xs => some xs
           | .dict kvs => some (kvs.map fun kv => Val.str kv.1)    -- iterating a mapping yields its keys
           | _ => none
         (match items with
          | none =>
            (match v with
             | .str _ => (.raise ⟨"ValueError".toList, "Strings are not allowed as input to the in tag.".toList⟩, st')
             | _ => (.raise ⟨"TypeError".toList, []⟩, st'))
          | some [] =>
            (match els with
             | some e => oneRes (renderJoined env fuel e st')
             | none => (.ok [], st'))
          | some xs =>
            let sv : SeqVars := { items := xs, mapping := o.mapping, prefix_ := o.prefix_ }
            let cache : List Frame := match src with
              | .name n => [Frame.dict [(n, seqCacheVal v)]]
              | .expr _ => []
            let (r, st2) := inLoop env fuel sv o body 0 { st' with stack := (Frame.seq sv :: cache) ++ st'.stack }
            let st3 := { st2 with stack := st2.stack.drop (Frame.seq sv :: cache).length }
            (match r with
             | .ok ps =>
               (match joinUnicode env ps with
                | .ok p => (.ok (one p), st3)
                | .raise e => (.raise e, st3)
                | _ => (.oom, st3))
             | .raise e => (.raise e, st3)
             | .ret x => (.ret x, st3)
             | .oom => (.oom, st3)))
       | (.raise e, st') => (.raise e, st')
       | (.ret v, st') => (.ret v, st')
       | (.oom, st') => (.oom, st'))
    | .inx_ src o x body els =>
      (match evalSrc env fuel src st with
       | (.ok v, st') =>
         let items : Option (List Val) := match v with
           | .list xs => some xs
           | .tuple xs => some xs
           | .dict kvs => some (kvs.map fun kv => Val.str kv.1)
           | _ => none
         (match items with
          | none =>
            (match v with
             | .str _ => (.raise ⟨"ValueError".toList, "Strings are not allowed as input to the in tag.".toList⟩, st')
             | _ => (.raise ⟨"TypeError".toList, []⟩, st'))
          | some [] =>
            (match els with
             | some e => oneRes (renderJoined env fuel e st')
             | none => (.ok [], st'))
          | some xs =>
            -- sort_sequence / reverse_sequence work on a list of their own; the cache keeps the sequence as it was found
            -- sort_expr is evaluated, the sequence sorted (key callables are called), then reverse_expr is evaluated
            (match evalSortKey env fuel x st' with
             | (.ok key, sA) =>
               (match sortPart env o { x with sortKey := key } xs sA with
                | (.ok sorted, sB) =>
                  (match evalReverse env fuel x sB with
                   | (.ok rev, st1) =>
                     let ys := applyReverse rev sorted
                     let sv : SeqVars := { items := ys, mapping := o.mapping, prefix_ := o.prefix_ }
                     let cache : List Frame := cacheOf src v
                     (match x.batch with
                      | none =>
                        let (r, st2) := inLoop env fuel sv o body 0 { st1 with stack := (Frame.seq sv :: cache) ++ st1.stack }
                        let st3 := { st2 with stack := st2.stack.drop (Frame.seq sv :: cache).length }
                        (match r with
                         | .ok ps =>
                           (match joinUnicode env ps with
                            | .ok p => (.ok (one p), st3)
                            | .raise e => (.raise e, st3)
                            | _ => (.oom, st3))
                         | .raise e => (.raise e, st3)
                         | .ret x => (.ret x, st3)
                         | .oom => (.oom, st3))
                      | some bp0 =>
                        (match resolveNames env fuel x.names bp0 false st1 with
                         | (.ok (bp, bad), sP) =>
                           if bad then (.raise ⟨"TypeError".toList, []⟩, sP)
                           else
                           let w := bwinOf bp ys.length
                           -- `md['QUERY_STRING']` inside try/except: whatever it does is swallowed (its events stay)
                           (match getitem env fuel (txt "QUERY_STRING") true sP with
                            | (.oom, st2) => (.oom, st2)
                            | (_, st2) => oneRes (inBatch env fuel (batchInit sv w) o bp w body els cache st2))
                         | (.raise e, sP) => (.raise e, sP)
                         | (.ret x, sP) => (.ret x, sP)
                         | (.oom, sP) => (.oom, sP)))
                   | (.raise e, st1) => (.raise e, st1)
                   | (.ret x, st1) => (.ret x, st1)
                   | (.oom, st1) => (.oom, st1))
                | (.raise e, sB) => (.raise e, sB)
                | (.ret x, sB) => (.ret x, sB)
                | (.oom, sB) => (.oom, sB))
             | (.raise e, sA) => (.raise e, sA)
             | (.ret x, sA) => (.ret x, sA)
             | (.oom, sA) => (.oom, sA)))
       | (.raise e, st') => (.raise e, st')
       | (.ret v, st') => (.ret v, st')
       | (.oom, st') => (.oom, st'))
    | .with_ src mapping only body =>
      (match evalSrc env fuel src st with
       | (.ok v, st') =>
         let fr : Frame :=
           if mapping then (match v with
             | .dict kvs => .dict kvs
             | _ => .bad)
           else .inst (match v with | .tuple [x] => x | v => v) []
         if only then
           -- a fresh TemplateDict holding just this frame; the caller's namespace is untouched
           let (r, st2) := renderJoined env fuel body { st' with stack := [fr], level := 0 }
           oneRes (r, { st2 with stack := st'.stack, level := st'.level })
         else oneRes (framed env fuel fr body st')
       | (.raise e, st') => (.raise e, st')
       | (.ret v, st') => (.ret v, st')
       | (.oom, st') => (.oom, st'))
    | .let_ binds body =>
      let (r, st1) := letLoop env fuel binds body { st with stack := .dict [] :: st.stack }
      (r, { st1 with stack := st1.stack.drop 1 })
    | .ret src =>
      (match evalSrc env fuel src st with
       | (.ok v, st') => (.ret v, st')
       | (.raise e, st') => (.raise e, st')
       | (.ret v, st') => (.ret v, st')
       | (.oom, st') => (.oom, st'))
    | .raise_ cls clsExpr body =>
      (match raiseClass env fuel cls clsExpr st with
       | (none, st0) => (.oom, st0)
       | (some clsName, st0) =>
         (match renderJoined env fuel body st0 with
          | (.ok p, st1) => (.raise ⟨clsName, ustr (valOfPiece p)⟩, st1)
          | (.ret v, st1) => (.ret v, st1)
          | (.raise _, st1) => (.raise ⟨clsName, "Invalid Error Value".toList⟩, st1)
          | (.oom, st1) => (.oom, st1)))
    | .tryFin body fin =>
      -- the finally block is rendered whatever the body did; then the pending outcome continues
      (match renderJoined env fuel body st with
       | (.oom, st1) => (.oom, st1)
       | (r, st1) =>
         (match renderJoined env fuel fin st1 with
          | (.ok q, st2) =>
            (match r with
             | .ok p => join2 env p q st2
             | .raise e => (.raise e, st2)
             | .ret v => (.ret v, st2)
             | .oom => (.oom, st2))
          | (.raise e, st2) => (.raise e, st2)
          | (.ret v, st2) => (.ret v, st2)
          | (.oom, st2) => (.oom, st2)))
    | .try_ body handlers els =>
      (match renderJoined env fuel body st with
       | (.ok p, st1) =>
         (match els with
          | none => (.ok (one p), st1)
          | some e =>
            (match renderJoined env fuel e st1 with
             | (.ok q, st2) => join2 env p q st2
             | (.raise x, st2) => (.raise x, st2)
             | (.ret x, st2) => (.ret x, st2)
             | (.oom, st2) => (.oom, st2)))
       | (.ret v, st1) => (.ret v, st1)
       | (.oom, st1) => (.oom, st1)
       | (.raise ex, st1) =>
         (match findHandler env handlers ex.cls with
          | none => (.raise ex, st1)
          | some h =>
            -- the message texts CPython gives its own errors (and AccessControl its Unauthorized: args with a traceback object) are outside the model
            let internal := ["TypeError", "AttributeError", "NameError", "IndexError", "UnicodeDecodeError", "Unauthorized"].map String.toList
            let msg := if internal.contains ex.cls then [Char.ofNat 0xFFFF] else ex.msg
            let ns : Val := .obj 0 [("error_type".toList, .str ex.cls), ("error_value".toList, .exc ex.cls msg),
                                   ("error_tb".toList, .str "traceback".toList)]
            oneRes (framed env fuel (.inst ns []) h st1)))
termination_by structural fuel => fuel

/-- dtml-let: bindings are evaluated in order into the (already pushed) dictionary, then the body -/
def letLoop (env : Env) : Nat → List (Text × Src) → List Blk → St → Res (List Piece) × St
  | 0, _, _, st => (.oom, st)
  | fuel + 1, [], body, st => oneRes (renderJoined env fuel body st)
  | fuel + 1, (n, src) :: rest, body, st =>
    match evalSrc env fuel src st with
    | (.ok v, st') =>
      let st'' := match st'.stack with
        | .dict kvs :: fs => { st' with stack := .dict (kvs.filter (·.1 != n) ++ [(n, v)]) :: fs }
        | _ => st'
      letLoop env fuel rest body st''
    | (.raise e, st') => (.raise e, st')
    | (.ret v, st') => (.ret v, st')
    | (.oom, st') => (.oom, st')
termination_by structural fuel => fuel

end

/-! ### a top-level call `template(client, mapping, **kw)` -/

/-- `String.initvars(mapping, vars)`: the template's defaults are the construction-time keyword
arguments, completed by the entries of the construction-time mapping whose key does not start
with an underscore and is not already a keyword -/
def initvars (ckw cmapping : List (Text × Val)) : List (Text × Val) :=
  ckw ++ cmapping.filter (fun kv => kv.1.head? != some '_' && !(ckw.any (·.1 == kv.1)))

structure CallArgs where
  clients : List Val := []                 -- the client tuple, in order
  mapping : List (Text × Val) := []
  kw : List (Text × Val) := []
  deriving Repr, Inhabited

/-- the namespace String.__call__ builds: bottom to top
globals, mapping, clients (first … last), vars, kw — returned top first -/
def callStack (t : Template) (c : CallArgs) : List Frame :=
  let bottomUp : List Frame :=
    (if t.globals.isEmpty then [] else [Frame.dict t.globals]) ++
    (if c.mapping.isEmpty then [] else [Frame.dict c.mapping]) ++
    c.clients.map (fun v => Frame.inst v []) ++
    (if t.vars.isEmpty then [] else [Frame.dict t.vars]) ++
    (if c.kw.isEmpty then [] else [Frame.dict c.kw])
  bottomUp.reverse

/-- result of a call: the rendered piece, or a returned value, or an exception; with the final state -/
def topCall (env : Env) (fuel : Nat) (t : Template) (c : CallArgs) : Res Val × St :=
  let st0 : St := { stack := callStack t c, level := 1 }
  let (r, st1) := renderBlocks env fuel t.blocks st0
  match r with
  | .ok ps =>
    (match joinPieces env ps with
     | .ok p => (.ok (valOfPiece p), st1)
     | .raise e => (.raise e, st1)
     | _ => (.oom, st1))
  | .ret v => (.ok v, st1)
  | .raise e => (.raise e, st1)
  | .oom => (.oom, st1)

end DTML.Render
