/-
Lemmas for `C20.gen_apply_diff_is_model`: the translation of TreeTag.apply_diff (GenTreeState.lean, regenerated from the
source on every run) against the hand-written model `TreeState.applyDiff`.
-/
import DTML.GenTreeState
namespace DTML.Lemmas.TreeGen
open DTML.TreeState DTML.GenTreeState

theorem pyIdx_nat (n j : Nat) (h : j < n) : pyIdx n (j : Int) = some j := by
  unfold pyIdx
  have h1 : ¬ ((j : Int) < 0) := by omega
  have h2 : (j : Int) < (n : Int) := by omega
  simp only [h1, h2, if_false, if_true, Int.toNat_natCast]

theorem pyIdx_last (n : Nat) : pyIdx (n + 1) (-1) = some n := by
  unfold pyIdx
  have h1 : ((-1 : Int) < 0) := by omega
  have h2 : ¬ ((-1 : Int) + ((n + 1 : Nat) : Int) < 0) := by omega
  have h3 : ((-1 : Int) + ((n + 1 : Nat) : Int)).toNat = n := by omega
  simp only [h1, h2, h3, if_false, if_true]

/-- the search loop finds nothing exactly when `findId` finds nothing: `loc` keeps its initial value -/
theorem gen_apply_diff_search_none (id : Nat) : ∀ (kids : List St) (i : Nat) (loc : Int),
    findId kids id = none → searchGen id kids i loc = loc := by
  intro kids
  induction kids with
  | nil => intro i loc _; rfl
  | cons k ks ih =>
    intro i loc h
    by_cases hk : (k.id == id) = true
    · simp [findId, hk] at h
    · have h' : findId ks id = none := by simpa [findId, List.find?_cons, hk] using h
      simp only [searchGen, hk]
      exact ih (i + 1) loc h'

/-- the search loop stops at the entry `findId` finds: its position, and what the model's `eraseId` / `modifyId` do there -/
theorem gen_apply_diff_search_some (id : Nat) : ∀ (kids : List St) (i : Nat) (loc : Int) (n : St),
    findId kids id = some n →
    ∃ j : Nat, searchGen id kids i loc = ((i + j : Nat) : Int) ∧ j < kids.length ∧ kids[j]? = some n ∧ n.id = id ∧
      eraseId kids id = kids.eraseIdx j ∧ ∀ f, modifyId kids id f = kids.set j (f n) := by
  intro kids
  induction kids with
  | nil => intro i loc n h; simp [findId] at h
  | cons k ks ih =>
    intro i loc n h
    by_cases hk : (k.id == id) = true
    · have hn : k = n := by simpa [findId, List.find?_cons, hk] using h
      subst hn
      refine ⟨0, ?_, by simp, by simp, by simpa using hk, ?_, ?_⟩
      · simp [searchGen, hk]
      · simp [eraseId, hk]
      · intro f; simp [modifyId, hk]
    · have h' : findId ks id = some n := by simpa [findId, List.find?_cons, hk] using h
      obtain ⟨j, h1, h2, h3, h4, h5, h6⟩ := ih (i + 1) loc n h'
      have hk' : (k.id == id) = false := by simpa using hk
      refine ⟨j + 1, ?_, by simp only [List.length_cons]; omega, by simpa using h3, h4, ?_, ?_⟩
      · simp only [searchGen, hk', Bool.false_eq_true, if_false]
        rw [h1]
        congr 1
        omega
      · simp [eraseId, hk, h5]
      · intro f; simp [modifyId, hk, h6]

/-- `s.append([id, []]); s = s[-1][1]; <rest>` -/
theorem descend_appended (s : List St) (id : Nat) (f : List St → Option (List St)) :
    descendAt (s ++ [St.node id []]) (-1) f = (f []).map (fun r => s ++ [St.node id r]) := by
  unfold descendAt
  have hl : (s ++ [St.node id []]).length = s.length + 1 := by simp
  rw [hl, pyIdx_last]
  simp [St.kids, St.id]

theorem gen_apply_diff_chain (e : Bool) : ∀ (rest : Path) (s : List St), chainGen e s rest = some (s ++ chainRest rest e) := by
  intro rest
  induction rest with
  | nil => intro s; simp [chainGen, chainRest]
  | cons r rs ih =>
    intro s
    by_cases ht : (!rs.isEmpty || e) = true
    · simp only [chainGen, chainRest, ht, if_true]
      rw [descend_appended, ih]
      simp
    · simp only [chainGen, chainRest, ht]
      have hrs : rs = [] := by
        cases rs with
        | nil => rfl
        | cons a t => simp at ht
      subst hrs
      simp [chainGen]

theorem gen_apply_diff_loop (e : Bool) : ∀ (p : Path) (s : List St), loopGen e s p = some (applyDiff s p e) := by
  intro p
  induction p with
  | nil => intro s; simp [loopGen, applyDiff]
  | cons id rest ih =>
    intro s
    cases hf : findId s id with
    | none =>
      have hs := gen_apply_diff_search_none id s 0 (-1) hf
      simp only [loopGen, applyDiff, hf, hs]
      have hneg : decide ((-1 : Int) ≥ 0) = false := by decide
      simp only [hneg]
      by_cases ht : (!rest.isEmpty || e) = true
      · simp only [ht, if_true]
        rw [descend_appended, gen_apply_diff_chain]
        simp
      · simp only [ht]
        have hrs : rest = [] := by
          cases rest with
          | nil => rfl
          | cons a t => simp at ht
        subst hrs
        simp [offEntry]
    | some n =>
      obtain ⟨j, h1, h2, h3, h4, h5, h6⟩ := gen_apply_diff_search_some id s 0 (-1) n hf
      simp only [loopGen, applyDiff, hf, h1, Nat.zero_add]
      have hpos : decide (((j : Nat) : Int) ≥ 0) = true := by simp
      simp only [hpos, if_true]
      by_cases ht : (rest.isEmpty && !e) = true
      · have ht' : (!(!rest.isEmpty) && !e) = true := by simpa using ht
        simp only [ht, ht', if_true]
        have hrs : rest = [] := by
          cases rest with
          | nil => rfl
          | cons a t => simp at ht
        subst hrs
        simp [delAt, pyIdx_nat _ _ h2, offEntry, h5]
      · have ht' : ¬ ((!(!rest.isEmpty) && !e) = true) := by simpa using ht
        simp only [ht, ht']
        unfold descendAt
        rw [pyIdx_nat _ _ h2]
        simp only [h3, ih, Option.map_some, h6, h4]
        simp

theorem gen_apply_diff_spec (state : List St) (diff : Path) (expand : Bool) :
    applyDiffGen state diff expand = some (applyDiff state diff expand) := by
  unfold applyDiffGen
  rw [List.reverse_reverse, gen_apply_diff_loop]
  cases diff with
  | nil => simp [applyDiff]
  | cons a t => simp

/-! ### tpStateLevel -/
mutual
theorem gen_entry_level (two : St → Bool) (h : ∀ s : St, s.kids ≠ [] → two s = true) :
    ∀ (s : St) (level : Nat), entryLevelGen two s level = max level (depthSt s)
  | .node sid kids, level => by
    simp only [entryLevelGen, depthSt]
    cases ht : two (St.node sid kids) with
    | true =>
      simp only [if_true]
      rw [gen_state_level two h kids 0]
      simp
    | false =>
      by_cases hk : kids = []
      · subst hk; simp [depthList]
      · have := h (St.node sid kids) (by simpa [St.kids] using hk)
        rw [this] at ht
        cases ht
theorem gen_state_level (two : St → Bool) (h : ∀ s : St, s.kids ≠ [] → two s = true) :
    ∀ (st : List St) (level : Nat), stateLevelGen two st level = max level (depthList st)
  | [], level => by simp [stateLevelGen, depthList]
  | s :: ss, level => by
    simp only [stateLevelGen, depthList]
    rw [gen_entry_level two h s level, gen_state_level two h ss _]
    omega
end

/-! ### tpValuesIds -/
mutual
theorem gen_values_ids : ∀ t : T, valuesIdsGen t = allIdsList t.kids
  | .node id items => by
    simp only [valuesIdsGen, T.kids]
    rw [gen_values_ids_loop items []]
    simp
theorem gen_values_ids_loop : ∀ (items : List T) (r : List St), valuesIdsLoopGen items r = r ++ allIdsList items
  | [], r => by simp [valuesIdsLoopGen, allIdsList]
  | .node id kids :: items, r => by
    simp only [valuesIdsLoopGen, allIdsList, allIds, T.kids, T.id]
    by_cases hk : kids.isEmpty = true
    · simp only [hk, Bool.not_true, Bool.false_eq_true, if_false, if_true]
      rw [gen_values_ids_loop items r]
      simp
    · have hk' : kids.isEmpty = false := by simpa using hk
      simp only [hk', Bool.not_false, if_true, Bool.false_eq_true, if_false]
      have e2 : valuesIdsGen (.node id kids) = allIdsList kids := gen_values_ids (.node id kids)
      rw [gen_values_ids_loop items _, e2]
      have key : ∀ e : List St, (if (!e.isEmpty) = true then St.node id e else St.node id []) = St.node id e := by
        intro e; cases e <;> simp
      rw [key]
      simp
end

end DTML.Lemmas.TreeGen
