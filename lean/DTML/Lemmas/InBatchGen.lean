/- Lemmas for the obligations `gen_int_param_*` / `gen_in_window_*` / `gen_in_previous_*` / `gen_in_next_*` of Props/C11: the
   prologue of `InClass.renderwb` and `int_param` as translated from the source (GenIn.lean) against the model's
   `resolveNames` / `Batch.window` / `bwinOf` / `batchInit` / `prevInfo` / `nextInfo`. -/
import DTML.Render
import DTML.GenCode
import DTML.GenIn
namespace DTML.Lemmas.InBatchGen
open DTML.Render DTML.GenIn

/-- what `opt()` can compute with: an int or a bool (anything else: TypeError, the model's flag) -/
def valPInt : Val → Option Int
  | .int i => some i
  | .bool b => some (if b then 1 else 0)
  | _ => none

/-- `int()` of a string gives a number or fails: it never hands the string on -/
theorem paramInt_str_ne_bad (s : Text) : paramInt (.str s) ≠ .bad := by
  intro h
  unfold paramInt at h
  split at h
  all_goals first | (split at h <;> simp at h) | (rename_i h5; exact h5 s rfl) | simp at h

/-- a numeral is converted as it stands -/
theorem int_param_lit (env : Env) (fuel : Nat) (params : Text → Option Param) (name : Text) (d : Val) (st : St) (i : Int)
    (h : params name = some (.lit i)) : intParamGen env fuel params name d st = (.ok (.int i), st) := by
  simp [intParamGen, h, pvTruthy, pvInt]

/-- a parameter that is not given: both defaults `renderwb` passes (`0` and `'0'`) read as 0 -/
theorem int_param_absent (env : Env) (fuel : Nat) (params : Text → Option Param) (name : Text) (d : Val) (st : St)
    (h : params name = none) (hd : d = .int 0 ∨ d = .str "0".toList) :
    intParamGen env fuel params name d st = (.ok (.int 0), st) := by
  rcases hd with rfl | rfl
  · simp [intParamGen, h, pvTruthy, truthy, pvVal]
  · simp [intParamGen, h, pvTruthy, truthy, pvInt, valInt, paramInt, digitsVal]

/-- a parameter given by name: `md[name]`, a string converted, anything else handed on -/
theorem int_param_name (env : Env) (fuel : Nat) (params : Text → Option Param) (name n : Text) (d : Val) (st : St)
    (h : params name = some (.name n)) (hn : n ≠ []) :
    intParamGen env fuel params name d st =
      match getitem env fuel n true st with
      | (.ok v, st') =>
        (match paramInt v with
         | .ok i => (.ok (match v with | .str _ => .int i | v => v), st')
         | .bad => (.ok v, st')
         | .valueError => (.raise intError, st'))
      | (.raise e, st') => (.raise e, st')
      | (.ret v, st') => (.ret v, st')
      | (.oom, st') => (.oom, st') := by
  cases n with
  | nil => exact absurd rfl hn
  | cons c cs =>
    simp only [intParamGen, h, pvTruthy, pvInt, pvGetitem, List.isEmpty_cons, Bool.not_false, if_true]
    generalize getitem env fuel (c :: cs) true st = r
    rcases r with ⟨r, st'⟩
    cases r with
    | ok v =>
      cases v with
      | str s =>
        simp only [typeOf, if_true]
        unfold valInt
        have hb := paramInt_str_ne_bad s
        generalize paramInt (.str s) = q at hb
        cases q <;> first | exact absurd rfl hb | simp only []
      | _ => simp only [typeOf, paramInt] <;> simp
    | _ => simp only []

/-- one step of the model's `resolveNames` is the translated `int_param` (what `opt()` cannot compute with sets the
flag; for `start` every failure is swallowed and 1 taken: `except Exception: start = 1` around the call) -/
theorem resolve_step (env : Env) (fuel : Nat) (params : Text → Option Param) (p n : Text) (d : Val)
    (rest : List (Text × Text)) (bp : BatchP) (bad : Bool) (st : St)
    (h : params p = some (.name n)) (hn : n ≠ []) :
    resolveNames env (fuel + 1) ((p, n) :: rest) bp bad st =
      match intParamGen env fuel params p d st with
      | (.ok v, st') =>
        (match valPInt v with
         | some i => resolveNames env fuel rest (setParam bp p i) bad st'
         | none => resolveNames env fuel rest bp true st')
      | (.raise e, st') =>
        if p == "start".toList then resolveNames env fuel rest (setParam bp p 1) bad st' else (.raise e, st')
      | (.ret v, st') =>
        if p == "start".toList then resolveNames env fuel rest (setParam bp p 1) bad st' else (.ret v, st')
      | (.oom, st') => (.oom, st') := by
  rw [int_param_name env fuel params p n d st h hn]
  generalize hK : resolveNames env fuel rest = K
  unfold resolveNames
  simp only [hK]
  generalize getitem env fuel n true st = r
  rcases r with ⟨r, st'⟩
  cases r with
  | ok v =>
    cases v with
    | str s =>
      simp only []
      have hb := paramInt_str_ne_bad s
      generalize paramInt (.str s) = q at hb
      cases q <;> first | exact absurd rfl hb | (simp only [valPInt]; done) | (simp only []; unfold intError; rfl)
    | _ => simp only [paramInt, valPInt] <;> simp
  | _ => simp only [] <;> simp

/-! ### the `previous` / `next` renderings -/

/-- `sequence[end]` succeeds = there are elements after the window -/
theorem seqHas_stop (sv : SeqVars) (w : BWin) : seqHas sv (w.stop : Int) = moreAfter sv w := by
  have e4 : (-(sv.items.length : Int) ≤ (w.stop : Int) ∧ (w.stop : Int) < (sv.items.length : Int)) ↔
      w.stop < sv.items.length := by omega
  simp only [seqHas, moreAfter, e4]

theorem first_vars_eq (sv : SeqVars) (w : BWin) : inBatchFirstVarsGen sv w = prevInfo sv w true := by
  simp only [inBatchFirstVarsGen, prevInfo, if_true]

theorem second_vars_eq (sv : SeqVars) (w : BWin) : inBatchSecondVarsGen sv w = nextInfo sv w true := by
  simp only [inBatchSecondVarsGen, nextInfo, if_true]

theorem first_eq (sv : SeqVars) (w : BWin) :
    inBatchFirstGen sv w = if w.first > 0 then some (prevInfo sv w true) else none := by
  have e3 : ((w.first : Int) > 0) ↔ w.first > 0 := by omega
  simp only [inBatchFirstGen, first_vars_eq, e3]

theorem second_eq (sv : SeqVars) (w : BWin) :
    inBatchSecondGen sv w = if moreAfter sv w then some (nextInfo sv w true) else none := by
  simp only [inBatchSecondGen, second_vars_eq, seqHas_stop]

/-- the rendering of a `previous` / `next` tag once the branch has decided: the section with the variables it stored, or
the else section (nothing without one) with the variables as they were; `svN`: the variables before the branch -/
def singleRender (env : Env) (fuel : Nat) (body : List Blk) (els : Option (List Blk)) (cache : List Frame) (svN : SeqVars)
    (r : Option SeqVars) (st : St) : Res Piece × St :=
  match r with
  | some sv => renderJoined env fuel body { st with stack := (Frame.seq sv :: cache) ++ st.stack }
  | none =>
    (match els with
     | some e => renderJoined env fuel e { st with stack := (Frame.seq svN :: cache) ++ st.stack }
     | none => (.ok (.text []), { st with stack := (Frame.seq svN :: cache) ++ st.stack }))

/-- the `finally` of `renderwb`: the variables (and the cache) are popped -/
def popFrames (k : Nat) (res : Res Piece × St) : Res Piece × St := (res.1, { res.2 with stack := res.2.stack.drop k })

theorem inBatch_previous (env : Env) (fuel : Nat) (sv0 : SeqVars) (o : InOpts) (bp : BatchP) (w : BWin) (body : List Blk)
    (els : Option (List Blk)) (cache : List Frame) (st : St) (hp : bp.previous = true) :
    inBatch env (fuel + 1) sv0 o bp w body els cache st =
      popFrames (cache.length + 1) (singleRender env fuel body els cache { sv0 with noIndex := true }
        (inBatchFirstGen { sv0 with noIndex := true } w) st) := by
  unfold inBatch
  rw [first_eq]
  simp only [hp, if_true, popFrames, singleRender]
  by_cases h : w.first > 0
  · simp only [h, if_true]
  · simp only [h, if_false]
    cases els <;> rfl

theorem inBatch_next (env : Env) (fuel : Nat) (sv0 : SeqVars) (o : InOpts) (bp : BatchP) (w : BWin) (body : List Blk)
    (els : Option (List Blk)) (cache : List Frame) (st : St) (hp : bp.previous = false) (hn : bp.next = true) :
    inBatch env (fuel + 1) sv0 o bp w body els cache st =
      popFrames (cache.length + 1) (singleRender env fuel body els cache { sv0 with noIndex := true }
        (inBatchSecondGen { sv0 with noIndex := true } w) st) := by
  unfold inBatch
  rw [second_eq]
  have hm : moreAfter { sv0 with noIndex := true } w = moreAfter sv0 w := rfl
  simp only [hp, hn, if_true, popFrames, singleRender, hm, Bool.false_eq_true, if_false]
  by_cases h : moreAfter sv0 w = true
  · simp only [h, if_true]
  · simp only [h]
    cases els <;> rfl

end DTML.Lemmas.InBatchGen
