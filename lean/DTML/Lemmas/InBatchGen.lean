/- Lemmas for the obligations `gen_int_param_*` / `gen_in_window_*` / `gen_in_previous_*` / `gen_in_next_*` of Props/C11: the
   prologue of `InClass.renderwb` and `int_param` as translated from the source (GenIn.lean) against the model's
   `resolveNames` / `Batch.window` / `bwinOf` / `batchInit` / `prevInfo` / `nextInfo`. -/
import DTML.Render
import DTML.GenCode
import DTML.GenIn
namespace DTML.Lemmas.InBatchGen
open DTML.Render DTML.GenIn

/-- what `opt()` can compute with: an int or a bool (anything else: TypeError, the model's flag) -/
def valPInt : Val → Option Int
  | .int i => some i
  | .bool b => some (if b then 1 else 0)
  | _ => none

/-- `int()` of a string gives a number or fails: it never hands the string on -/
theorem paramInt_str_ne_bad (s : Text) : paramInt (.str s) ≠ .bad := by
  intro h
  unfold paramInt at h
  split at h
  all_goals first | (split at h <;> simp at h) | (rename_i h5; exact h5 s rfl) | simp at h

/-- a numeral is converted as it stands -/
theorem int_param_lit (env : Env) (fuel : Nat) (params : Text → Option Param) (name : Text) (d : Val) (st : St) (i : Int)
    (h : params name = some (.lit i)) : intParamGen env fuel params name d st = (.ok (.int i), st) := by
  simp [intParamGen, h, pvTruthy, pvInt]

/-- a parameter that is not given: both defaults `renderwb` passes (`0` and `'0'`) read as 0 -/
theorem int_param_absent (env : Env) (fuel : Nat) (params : Text → Option Param) (name : Text) (d : Val) (st : St)
    (h : params name = none) (hd : d = .int 0 ∨ d = .str "0".toList) :
    intParamGen env fuel params name d st = (.ok (.int 0), st) := by
  rcases hd with rfl | rfl
  · simp [intParamGen, h, pvTruthy, truthy, pvVal]
  · simp [intParamGen, h, pvTruthy, truthy, pvInt, valInt, paramInt, digitsVal]

/-- a parameter given by name: `md[name]`, a string converted, anything else handed on -/
theorem int_param_name (env : Env) (fuel : Nat) (params : Text → Option Param) (name n : Text) (d : Val) (st : St)
    (h : params name = some (.name n)) (hn : n ≠ []) :
    intParamGen env fuel params name d st =
      match getitem env fuel n true st with
      | (.ok v, st') =>
        (match paramInt v with
         | .ok i => (.ok (match v with | .str _ => .int i | v => v), st')
         | .bad => (.ok v, st')
         | .valueError => (.raise intError, st'))
      | (.raise e, st') => (.raise e, st')
      | (.ret v, st') => (.ret v, st')
      | (.oom, st') => (.oom, st') := by
  cases n with
  | nil => exact absurd rfl hn
  | cons c cs =>
    simp only [intParamGen, h, pvTruthy, pvInt, pvGetitem, List.isEmpty_cons, Bool.not_false, if_true]
    generalize getitem env fuel (c :: cs) true st = r
    rcases r with ⟨r, st'⟩
    cases r with
    | ok v =>
      cases v with
      | str s =>
        simp only [typeOf, if_true]
        unfold valInt
        have hb := paramInt_str_ne_bad s
        generalize paramInt (.str s) = q at hb
        cases q <;> first | exact absurd rfl hb | simp only []
      | _ => simp only [typeOf, paramInt] <;> simp
    | _ => simp only []

/-- one step of the model's `resolveNames` is the translated `int_param` (what `opt()` cannot compute with sets the
flag; for `start` every failure is swallowed and 1 taken: `except Exception: start = 1` around the call) -/
theorem resolve_step (env : Env) (fuel : Nat) (params : Text → Option Param) (p n : Text) (d : Val)
    (rest : List (Text × Text)) (bp : BatchP) (bad : Bool) (st : St)
    (h : params p = some (.name n)) (hn : n ≠ []) :
    resolveNames env (fuel + 1) ((p, n) :: rest) bp bad st =
      match intParamGen env fuel params p d st with
      | (.ok v, st') =>
        (match valPInt v with
         | some i => resolveNames env fuel rest (setParam bp p i) bad st'
         | none => resolveNames env fuel rest bp true st')
      | (.raise e, st') =>
        if p == "start".toList then resolveNames env fuel rest (setParam bp p 1) bad st' else (.raise e, st')
      | (.ret v, st') =>
        if p == "start".toList then resolveNames env fuel rest (setParam bp p 1) bad st' else (.ret v, st')
      | (.oom, st') => (.oom, st') := by
  rw [int_param_name env fuel params p n d st h hn]
  generalize hK : resolveNames env fuel rest = K
  unfold resolveNames
  simp only [hK]
  generalize getitem env fuel n true st = r
  rcases r with ⟨r, st'⟩
  cases r with
  | ok v =>
    cases v with
    | str s =>
      simp only []
      have hb := paramInt_str_ne_bad s
      generalize paramInt (.str s) = q at hb
      cases q <;> first | exact absurd rfl hb | (simp only [valPInt]; done) | (simp only []; unfold intError; rfl)
    | _ => simp only [paramInt, valPInt] <;> simp
  | _ => simp only [] <;> simp

/-! ### the `previous` / `next` renderings -/

/-- `sequence[end]` succeeds = there are elements after the window -/
theorem seqHas_stop (sv : SeqVars) (w : BWin) : seqHas sv (w.stop : Int) = moreAfter sv w := by
  have e4 : (-(sv.items.length : Int) ≤ (w.stop : Int) ∧ (w.stop : Int) < (sv.items.length : Int)) ↔
      w.stop < sv.items.length := by omega
  simp only [seqHas, moreAfter, e4]

theorem first_vars_eq (sv : SeqVars) (w : BWin) : inBatchFirstVarsGen sv w = prevInfo sv w true := by
  simp only [inBatchFirstVarsGen, prevInfo, if_true]

theorem second_vars_eq (sv : SeqVars) (w : BWin) : inBatchSecondVarsGen sv w = nextInfo sv w true := by
  simp only [inBatchSecondVarsGen, nextInfo, if_true]

theorem first_eq (sv : SeqVars) (w : BWin) :
    inBatchFirstGen sv w = if w.first > 0 then some (prevInfo sv w true) else none := by
  have e3 : ((w.first : Int) > 0) ↔ w.first > 0 := by omega
  simp only [inBatchFirstGen, first_vars_eq, e3]

theorem second_eq (sv : SeqVars) (w : BWin) :
    inBatchSecondGen sv w = if moreAfter sv w then some (nextInfo sv w true) else none := by
  simp only [inBatchSecondGen, second_vars_eq, seqHas_stop]

/-- the rendering of a `previous` / `next` tag once the branch has decided: the section with the variables it stored, or
the else section (nothing without one) with the variables as they were; `svN`: the variables before the branch -/
def singleRender (env : Env) (fuel : Nat) (body : List Blk) (els : Option (List Blk)) (cache : List Frame) (svN : SeqVars)
    (r : Option SeqVars) (st : St) : Res Piece × St :=
  match r with
  | some sv => renderJoined env fuel body { st with stack := (Frame.seq sv :: cache) ++ st.stack }
  | none =>
    (match els with
     | some e => renderJoined env fuel e { st with stack := (Frame.seq svN :: cache) ++ st.stack }
     | none => (.ok (.text []), { st with stack := (Frame.seq svN :: cache) ++ st.stack }))

/-- the `finally` of `renderwb`: the variables (and the cache) are popped -/
def popFrames (k : Nat) (res : Res Piece × St) : Res Piece × St := (res.1, { res.2 with stack := res.2.stack.drop k })

theorem inBatch_previous (env : Env) (fuel : Nat) (sv0 : SeqVars) (o : InOpts) (bp : BatchP) (w : BWin) (body : List Blk)
    (els : Option (List Blk)) (cache : List Frame) (st : St) (hp : bp.previous = true) :
    inBatch env (fuel + 1) sv0 o bp w body els cache st =
      popFrames (cache.length + 1) (singleRender env fuel body els cache { sv0 with noIndex := true }
        (inBatchFirstGen { sv0 with noIndex := true } w) st) := by
  unfold inBatch
  rw [first_eq]
  simp only [hp, if_true, popFrames, singleRender]
  by_cases h : w.first > 0
  · simp only [h, if_true]
  · simp only [h, if_false]
    cases els <;> rfl

theorem inBatch_next (env : Env) (fuel : Nat) (sv0 : SeqVars) (o : InOpts) (bp : BatchP) (w : BWin) (body : List Blk)
    (els : Option (List Blk)) (cache : List Frame) (st : St) (hp : bp.previous = false) (hn : bp.next = true) :
    inBatch env (fuel + 1) sv0 o bp w body els cache st =
      popFrames (cache.length + 1) (singleRender env fuel body els cache { sv0 with noIndex := true }
        (inBatchSecondGen { sv0 with noIndex := true } w) st) := by
  unfold inBatch
  rw [second_eq]
  have hm : moreAfter { sv0 with noIndex := true } w = moreAfter sv0 w := rfl
  simp only [hp, hn, if_true, popFrames, singleRender, hm, Bool.false_eq_true, if_false]
  by_cases h : moreAfter sv0 w = true
  · simp only [h, if_true]
  · simp only [h]
    cases els <;> rfl

/-! ### the five `int_param` calls composed: one run of `resolveNames` -/

/-- the list the model resolves: the parameters given by the name of a variable, in the order of the calls -/
def namesOf (params : Text → Option Param) : List (String × Val × Option Int) → List (Text × Text)
  | [] => []
  | c :: cs =>
    match params c.1.toList with
    | some (.name n) => (c.1.toList, n) :: namesOf params cs
    | _ => namesOf params cs

/-- the parameters the model starts from: numerals as they stand, 0 for a parameter that is not given (the parameters
given by name are left as they are) -/
def litFill (params : Text → Option Param) : List (String × Val × Option Int) → BatchP → BatchP
  | [], bp => bp
  | c :: cs, bp =>
    match params c.1.toList with
    | some (.name _) => litFill params cs bp
    | some (.lit i) => litFill params cs (setParam bp c.1.toList i)
    | none => litFill params cs (setParam bp c.1.toList 0)

/-- what a call costs in the model's fuel: one unit when the parameter is given by name (the lookup `md[v]`), nothing
when it is a numeral or not given -/
def paramCost (params : Text → Option Param) (p : Text) : Nat :=
  match params p with
  | some (.name _) => 1
  | _ => 0

/-- the calls run one after the other as `renderwb` does: each call is the translated `int_param` with the key and the
default of the call; its value is stored when `opt()` can compute with it (else the TypeError flag is set); an exception
is swallowed where the source has a handler around the call (the constant of the handler is stored) and propagates
elsewhere.  Fuel: a call gets what is left after paying `paramCost`, and hands exactly that on to the next call; one unit
must be left at the end. -/
def paramsRun (env : Env) (params : Text → Option Param) :
    List (String × Val × Option Int) → Nat → BatchP → Bool → St → Res (BatchP × Bool) × St
  | [], fuel, bp, bad, st => if fuel = 0 then (.oom, st) else (.ok (bp, bad), st)
  | c :: cs, fuel, bp, bad, st =>
    if fuel < paramCost params c.1.toList then (.oom, st)
    else
      match intParamGen env (fuel - paramCost params c.1.toList) params c.1.toList c.2.1 st with
      | (.ok v, st') =>
        (match valPInt v with
         | some i => paramsRun env params cs (fuel - paramCost params c.1.toList) (setParam bp c.1.toList i) bad st'
         | none => paramsRun env params cs (fuel - paramCost params c.1.toList) bp true st')
      | (.raise e, st') =>
        (match c.2.2 with
         | some i => paramsRun env params cs (fuel - paramCost params c.1.toList) (setParam bp c.1.toList i) bad st'
         | none => (.raise e, st'))
      | (.ret v, st') =>
        (match c.2.2 with
         | some i => paramsRun env params cs (fuel - paramCost params c.1.toList) (setParam bp c.1.toList i) bad st'
         | none => (.ret v, st'))
      | (.oom, st') => (.oom, st')

/-- a key is one of the five, or a store under it does nothing -/
theorem setParam_cases (p : Text) :
    p = "start".toList ∨ p = "end".toList ∨ p = "size".toList ∨ p = "overlap".toList ∨ p = "orphan".toList ∨
      (∀ (bp : BatchP) (i : Int), setParam bp p i = bp) := by
  by_cases h1 : p = "start".toList
  · exact Or.inl h1
  by_cases h2 : p = "end".toList
  · exact Or.inr (Or.inl h2)
  by_cases h3 : p = "size".toList
  · exact Or.inr (Or.inr (Or.inl h3))
  by_cases h4 : p = "overlap".toList
  · exact Or.inr (Or.inr (Or.inr (Or.inl h4)))
  by_cases h5 : p = "orphan".toList
  · exact Or.inr (Or.inr (Or.inr (Or.inr (Or.inl h5))))
  · refine Or.inr (Or.inr (Or.inr (Or.inr (Or.inr ?_))))
    intro bp i
    simp only [setParam, h1, h2, h3, h4, h5, if_false]

/-- stores to different parameters commute -/
theorem setParam_comm (bp : BatchP) (p q : Text) (i j : Int) (h : p ≠ q) :
    setParam (setParam bp q j) p i = setParam (setParam bp p i) q j := by
  rcases setParam_cases p with rfl | rfl | rfl | rfl | rfl | hp <;>
    rcases setParam_cases q with rfl | rfl | rfl | rfl | rfl | hq <;>
    first | exact absurd rfl h | rfl | simp only [hp, hq] | simp only [hp] | simp only [hq]

/-- a store under a key that is not among the remaining calls can be done before or after the numerals are filled in -/
theorem litFill_setParam (params : Text → Option Param) (cs : List (String × Val × Option Int)) (p : Text) (i : Int)
    (h : ∀ c ∈ cs, c.1.toList ≠ p) (bp : BatchP) :
    litFill params cs (setParam bp p i) = setParam (litFill params cs bp) p i := by
  induction cs generalizing bp with
  | nil => rfl
  | cons c cs ih =>
    have hc : c.1.toList ≠ p := h c (List.mem_cons_self ..)
    have ih' := ih (fun c' hc' => h c' (List.mem_cons_of_mem _ hc'))
    unfold litFill
    cases hq : params c.1.toList with
    | none => simp only []; rw [setParam_comm _ _ _ _ _ hc, ih']
    | some q =>
      cases q with
      | lit k => simp only []; rw [setParam_comm _ _ _ _ _ hc, ih']
      | name n => simp only []; exact ih' bp

/-- **the calls composed are one run of `resolveNames`**: over any list of calls with distinct keys whose defaults are
`0` / `'0'` and whose handler is the one of `start` (`inBatchParamCalls` is such a list: `params_calls_ok`), running the
translated `int_param` calls one after the other is `resolveNames` on the parameters given by name (in the order of the
calls), started from the numerals; with the same fuel: every parameter given by name costs one unit, the others none -/
theorem params_run (env : Env) (params : Text → Option Param) (cs : List (String × Val × Option Int))
    (hk : cs.Pairwise (fun a b => b.1.toList ≠ a.1.toList))
    (hd : ∀ c ∈ cs, c.2.1 = .int 0 ∨ c.2.1 = .str "0".toList)
    (hh : ∀ c ∈ cs, c.2.2 = if c.1.toList == "start".toList then some 1 else none)
    (hn : ∀ c ∈ cs, ∀ n, params c.1.toList = some (.name n) → n ≠ [])
    (fuel : Nat) (bp : BatchP) (bad : Bool) (st : St) :
    paramsRun env params cs fuel bp bad st =
      resolveNames env fuel (namesOf params cs) (litFill params cs bp) bad st := by
  induction cs generalizing fuel bp bad st with
  | nil =>
    cases fuel with
    | zero => unfold paramsRun resolveNames; rfl
    | succ f => unfold paramsRun resolveNames litFill namesOf; simp
  | cons c cs ih =>
    have hk' := (List.pairwise_cons.mp hk)
    have ih' := ih hk'.2 (fun c' hc' => hd c' (List.mem_cons_of_mem _ hc')) (fun c' hc' => hh c' (List.mem_cons_of_mem _ hc'))
      (fun c' hc' => hn c' (List.mem_cons_of_mem _ hc'))
    have hdc := hd c (List.mem_cons_self ..)
    have hhc := hh c (List.mem_cons_self ..)
    have hnc := hn c (List.mem_cons_self ..)
    unfold paramsRun namesOf litFill
    cases hq : params c.1.toList with
    | none =>
      have hcost : paramCost params c.1.toList = 0 := by simp only [paramCost, hq]
      simp only [hcost, Nat.not_lt_zero, if_false, Nat.sub_zero, int_param_absent env fuel params _ _ st hq hdc, valPInt]
      exact ih' fuel _ bad st
    | some q =>
      cases q with
      | lit k =>
        have hcost : paramCost params c.1.toList = 0 := by simp only [paramCost, hq]
        simp only [hcost, Nat.not_lt_zero, if_false, Nat.sub_zero, int_param_lit env fuel params _ _ st k hq, valPInt]
        exact ih' fuel _ bad st
      | name n =>
        have hcost : paramCost params c.1.toList = 1 := by simp only [paramCost, hq]
        simp only [hcost]
        cases fuel with
        | zero => simp only [Nat.lt_one_iff, if_true]; unfold resolveNames; rfl
        | succ f =>
          have e1 : ¬ (f + 1 < 1) := by omega
          simp only [e1, if_false, Nat.add_sub_cancel]
          rw [resolve_step env f params c.1.toList n c.2.1 _ _ bad st hq (hnc n hq)]
          have hfill := fun i => litFill_setParam params cs c.1.toList i hk'.1
          generalize intParamGen env f params c.1.toList c.2.1 st = r
          rcases r with ⟨r, st'⟩
          cases r with
          | ok v =>
            simp only []
            cases valPInt v with
            | some i => simp only []; rw [ih', hfill]
            | none => simp only []; rw [ih']
          | raise e =>
            simp only [hhc]
            by_cases hs : (c.1.toList == "start".toList) = true
            · simp only [hs, if_true]; rw [ih', hfill]
            · simp only [hs]; rfl
          | ret v =>
            simp only [hhc]
            by_cases hs : (c.1.toList == "start".toList) = true
            · simp only [hs, if_true]; rw [ih', hfill]
            · simp only [hs]; rfl
          | oom => rfl

/-- the calls of `renderwb` satisfy what `params_run` asks of a list of calls -/
theorem params_calls_ok :
    inBatchParamCalls.Pairwise (fun a b => b.1.toList ≠ a.1.toList) ∧
    (∀ c ∈ inBatchParamCalls, c.2.1 = .int 0 ∨ c.2.1 = .str "0".toList) ∧
    (∀ c ∈ inBatchParamCalls, c.2.2 = if c.1.toList == "start".toList then some 1 else none) := by
  refine ⟨by decide, ?_, ?_⟩
  · intro c hc
    simp only [inBatchParamCalls, List.mem_cons, List.not_mem_nil, or_false] at hc
    rcases hc with rfl | rfl | rfl | rfl | rfl <;> first | exact Or.inl rfl | exact Or.inr rfl
  · intro c hc
    simp only [inBatchParamCalls, List.mem_cons, List.not_mem_nil, or_false] at hc
    rcases hc with rfl | rfl | rfl | rfl | rfl <;> rfl

end DTML.Lemmas.InBatchGen
