/-
Helper lemmas for the obligations `gen_seqvar_*` of Props/C10: how the run-time library of GenSeqVar.lean (Python's
operations on the model's values) computes on the values the sequence variables meet.
-/
import DTML.GenSeqVar
set_option linter.unusedVariables false
namespace DTML.Lemmas.SeqVar
open DTML.Render DTML.GenSeqVar

/-- a method's result as the fixed-name table of the model has it: an exception = no such variable
(`except Exception: pass` of `__getitem__`, then `raise KeyError(key)`) -/
def optOf : P → Option Val
  | .ok v => some v
  | _ => none

/-- a method's result as the namespace sees it: a KeyError = "not in this frame" -/
def toSeqRes : P → SeqRes
  | .ok v => .val v
  | .keyError _ => .missing
  | .raise e => .raise e

def toSVal : P → SVal
  | .ok v => .val v
  | .keyError _ => .keyMissing
  | .raise e => .raise e

@[simp] theorem bind_ok (v : Val) (f : Val → P) : GenSeqVar.bind (.ok v) f = f v := rfl
@[simp] theorem bind_raise (e : Exc) (f : Val → P) : GenSeqVar.bind (.raise e) f = .raise e := rfl
@[simp] theorem bind_keyError (k : Text) (f : Val → P) : GenSeqVar.bind (.keyError k) f = .keyError k := rfl
@[simp] theorem asInt_int (i : Int) : asInt (.int i) = some i := rfl
theorem exc_def (c : String) : exc c = ⟨c.toList, []⟩ := rfl

theorem pyIdx_nat {α : Type} (xs : List α) (i : Nat) : pyIdx xs (i : Int) = xs[i]? := by
  simp [pyIdx]

/-- `self.items[i]` -/
theorem items_at (sv : SeqVars) (i : Nat) :
    pySubscr (selfItems sv) (.ok (.int i)) =
      (match sv.items[i]? with | some v => .ok v | none => .raise (exc "IndexError")) := by
  simp only [pySubscr, selfItems, bind_ok, subscr, asInt, pyIdx_nat]
  cases sv.items[i]? <;> rfl

/-! ### arithmetic -/

theorem fmod2 (i : Nat) : (i : Int).fmod 2 = ((i % 2 : Nat) : Int) := by
  rw [Int.fmod_eq_emod_of_nonneg _ (by omega)]; omega

theorem add_nat (c i : Nat) : pyAdd (.ok (.int c)) (.ok (.int i)) = .ok (.int ((c : Int) + i)) := by
  simp only [pyAdd, arith, bind_ok, asInt_int]

theorem chr_int (n : Int) : pyChr (.ok (.int n)) =
    if 0 ≤ n ∧ n < (maxCode : Int) then .ok (.str [Char.ofNat n.toNat]) else .raise (exc "ValueError") := by
  simp only [pyChr, bind_ok, asInt_int]

private theorem x1 (c i : Nat) (hl : c + i < maxCode) : (0 : Int) ≤ (c : Int) + i ∧ (c : Int) + i < maxCode := by omega
private theorem x2 (c i : Nat) : ((c : Int) + i).toNat = c + i := by omega
private theorem x3 (c i : Nat) (hl : ¬ c + i < maxCode) : ¬ ((0 : Int) ≤ (c : Int) + i ∧ (c : Int) + i < maxCode) := by omega

/-- `chr(c + i)` inside the code range is the model's `letterOf` -/
theorem chr_add_ok (c i : Nat) (hl : c + i < maxCode) :
    pyChr (pyAdd (.ok (.int c)) (.ok (.int i))) = .ok (.str (letterOf c i)) := by
  rw [add_nat, chr_int, if_pos (x1 c i hl), x2]; rfl

theorem chr_add_out (c i : Nat) (hl : ¬ c + i < maxCode) :
    pyChr (pyAdd (.ok (.int c)) (.ok (.int i))) = .raise (exc "ValueError") := by
  rw [add_nat, chr_int, if_neg (x3 c i hl)]

/-! ### `self.data[…]` -/

theorem data_mapping (sv : SeqVars) : pyData sv (pyStr "mapping") = .ok (.bool sv.mapping) := by
  simp only [pyData, pyStr, bind_ok, dataGet]
  rw [if_neg (fun h => absurd h.1 (by decide)), if_neg (by decide), if_neg (by decide), if_pos trivial]

theorem data_start (sv : SeqVars) : pyData sv (pyStr "sequence-start") = .ok (.int (if sv.started then 1 else 0)) := by
  simp only [pyData, pyStr, bind_ok, dataGet]
  rw [if_neg (fun h => absurd h.1 (by decide)), if_pos trivial]

theorem data_end (sv : SeqVars) : pyData sv (pyStr "sequence-end") = .ok (.int (if sv.ended then 1 else 0)) := by
  simp only [pyData, pyStr, bind_ok, dataGet]
  rw [if_neg (fun h => absurd h.1 (by decide)), if_neg (by decide), if_pos trivial]

theorem data_index (sv : SeqVars) (h : sv.noIndex = false) :
    pyData sv (pyStr "sequence-index") = .ok (.int sv.index) := by
  simp only [pyData, pyStr, bind_ok, dataGet]
  rw [if_pos ⟨trivial, h⟩]

/-! ### elements -/

/-- the unwrapping test of `item` / `value` (`type(i) is tuple and len(i) == 2`) picks `i[1]` exactly on a 2-tuple -/
theorem unwrap_eq (sv : SeqVars) (i : Nat) (v : Val) (h : sv.items[i]? = some v) :
    pyIf (pyAnd (pyIsTuple (.ok v)) (pyEq (pyLen (.ok v)) (lit 2))) (pySubscr (.ok v) (lit 1)) (.ok v) =
      .ok (seqItem sv i) := by
  simp only [seqItem, h]
  cases v with
  | tuple xs =>
    rcases xs with _ | ⟨a, _ | ⟨b, _ | ⟨c, t⟩⟩⟩
    · simp [pyIf, pyAnd, pyIsTuple, pyEq, pyLen, lit, truthy, valBeq]
    · simp [pyIf, pyAnd, pyIsTuple, pyEq, pyLen, lit, truthy, valBeq]
    · simp [pyIf, pyAnd, pyIsTuple, pyEq, pyLen, lit, truthy, valBeq, pySubscr, subscr, pyIdx]
    · simp [pyIf, pyAnd, pyIsTuple, pyEq, pyLen, lit, truthy, valBeq]
      omega
  | _ => simp [pyIf, pyAnd, pyIsTuple, truthy]

/-- `value(i, x)` once the element is fetched and unwrapped: `item[x]` under `mapping`, else `getattr(item, x)` -/
def valueOf (sv : SeqVars) (item : Val) (x : Text) : P :=
  pyIf (pyData sv (pyStr "mapping")) (pySubscr (.ok item) (.ok (.str x))) (pyGetattr (.ok item) (.ok (.str x)))

theorem valueOf_strict (sv : SeqVars) (i : Nat) (x : Text) :
    toSVal (valueOf sv (seqItem sv i) x) = seqValueStrict sv i x := by
  unfold valueOf seqValueStrict
  rw [data_mapping]
  cases hm : sv.mapping <;> cases seqItem sv i <;>
    simp only [pyIf, truthy, pySubscr, subscr, pyGetattr, exc_def, bind_ok, toSVal, asInt, if_true, if_false,
      Bool.false_eq_true]
  all_goals (first | rfl | (cases List.lookup x _ <;> rfl))

end DTML.Lemmas.SeqVar
