/-
Helper lemmas for the obligations `gen_seqvar_*` of Props/C10: how the run-time library of GenSeqVar.lean (Python's
operations on the model's values) computes on the values the sequence variables meet.
-/
import DTML.GenSeqVar
set_option linter.unusedVariables false
namespace DTML.Lemmas.SeqVar
open DTML.Render DTML.GenSeqVar

/-- a method's result as the fixed-name table of the model has it: an exception = no such variable
(`except Exception: pass` of `__getitem__`, then `raise KeyError(key)`) -/
def optOf : P → Option Val
  | .ok v => some v
  | _ => none

/-- a method's result as the namespace sees it: a KeyError = "not in this frame" -/
def toSeqRes : P → SeqRes
  | .ok v => .val v
  | .keyError _ => .missing
  | .raise e => .raise e

def toSVal : P → SVal
  | .ok v => .val v
  | .keyError _ => .keyMissing
  | .raise e => .raise e

@[simp] theorem bind_ok (v : Val) (f : Val → P) : GenSeqVar.bind (.ok v) f = f v := rfl
@[simp] theorem bind_raise (e : Exc) (f : Val → P) : GenSeqVar.bind (.raise e) f = .raise e := rfl
@[simp] theorem bind_keyError (k : Text) (f : Val → P) : GenSeqVar.bind (.keyError k) f = .keyError k := rfl
@[simp] theorem asInt_int (i : Int) : asInt (.int i) = some i := rfl
theorem exc_def (c : String) : exc c = ⟨c.toList, []⟩ := rfl

theorem pyIdx_nat {α : Type} (xs : List α) (i : Nat) : pyIdx xs (i : Int) = xs[i]? := by
  simp [pyIdx]

/-- `self.items[i]` -/
theorem items_at (sv : SeqVars) (i : Nat) :
    pySubscr (selfItems sv) (.ok (.int i)) =
      (match sv.items[i]? with | some v => .ok v | none => .raise (exc "IndexError")) := by
  simp only [pySubscr, selfItems, bind_ok, subscr, asInt, pyIdx_nat]
  cases sv.items[i]? <;> rfl

/-! ### arithmetic -/

theorem fmod2 (i : Nat) : (i : Int).fmod 2 = ((i % 2 : Nat) : Int) := by
  rw [Int.fmod_eq_emod_of_nonneg _ (by omega)]; omega

theorem add_nat (c i : Nat) : pyAdd (.ok (.int c)) (.ok (.int i)) = .ok (.int ((c : Int) + i)) := by
  simp only [pyAdd, arith, bind_ok, asInt_int]

theorem chr_int (n : Int) : pyChr (.ok (.int n)) =
    if 0 ≤ n ∧ n < (maxCode : Int) then .ok (.str [Char.ofNat n.toNat]) else .raise (exc "ValueError") := by
  simp only [pyChr, bind_ok, asInt_int]

private theorem x1 (c i : Nat) (hl : c + i < maxCode) : (0 : Int) ≤ (c : Int) + i ∧ (c : Int) + i < maxCode := by omega
private theorem x2 (c i : Nat) : ((c : Int) + i).toNat = c + i := by omega
private theorem x3 (c i : Nat) (hl : ¬ c + i < maxCode) : ¬ ((0 : Int) ≤ (c : Int) + i ∧ (c : Int) + i < maxCode) := by omega

/-- `chr(c + i)` inside the code range is the model's `letterOf` -/
theorem chr_add_ok (c i : Nat) (hl : c + i < maxCode) :
    pyChr (pyAdd (.ok (.int c)) (.ok (.int i))) = .ok (.str (letterOf c i)) := by
  rw [add_nat, chr_int, if_pos (x1 c i hl), x2]; rfl

theorem chr_add_out (c i : Nat) (hl : ¬ c + i < maxCode) :
    pyChr (pyAdd (.ok (.int c)) (.ok (.int i))) = .raise (exc "ValueError") := by
  rw [add_nat, chr_int, if_neg (x3 c i hl)]

/-! ### `self.data[…]` -/

theorem data_mapping (sv : SeqVars) : pyData sv (pyStr "mapping") = .ok (.bool sv.mapping) := by
  simp only [pyData, pyStr, bind_ok, dataGet]
  rw [if_neg (fun h => absurd h.1 (by decide)), if_neg (by decide), if_neg (by decide), if_pos trivial]

theorem data_start (sv : SeqVars) : pyData sv (pyStr "sequence-start") = .ok (.int (if sv.started then 1 else 0)) := by
  simp only [pyData, pyStr, bind_ok, dataGet]
  rw [if_neg (fun h => absurd h.1 (by decide)), if_pos trivial]

theorem data_end (sv : SeqVars) : pyData sv (pyStr "sequence-end") = .ok (.int (if sv.ended then 1 else 0)) := by
  simp only [pyData, pyStr, bind_ok, dataGet]
  rw [if_neg (fun h => absurd h.1 (by decide)), if_neg (by decide), if_pos trivial]

theorem data_index (sv : SeqVars) (h : sv.noIndex = false) :
    pyData sv (pyStr "sequence-index") = .ok (.int sv.index) := by
  simp only [pyData, pyStr, bind_ok, dataGet]
  rw [if_pos ⟨trivial, h⟩]

/-! ### elements -/

/-- the unwrapping test of `item` / `value` (`type(i) is tuple and len(i) == 2`) picks `i[1]` exactly on a 2-tuple -/
theorem unwrap_eq (sv : SeqVars) (i : Nat) (v : Val) (h : sv.items[i]? = some v) :
    pyIf (pyAnd (pyIsTuple (.ok v)) (pyEq (pyLen (.ok v)) (lit 2))) (pySubscr (.ok v) (lit 1)) (.ok v) =
      .ok (seqItem sv i) := by
  simp only [seqItem, h]
  cases v with
  | tuple xs =>
    rcases xs with _ | ⟨a, _ | ⟨b, _ | ⟨c, t⟩⟩⟩
    · simp [pyIf, pyAnd, pyIsTuple, pyEq, pyLen, lit, truthy, valBeq]
    · simp [pyIf, pyAnd, pyIsTuple, pyEq, pyLen, lit, truthy, valBeq]
    · simp [pyIf, pyAnd, pyIsTuple, pyEq, pyLen, lit, truthy, valBeq, pySubscr, subscr, pyIdx]
    · simp [pyIf, pyAnd, pyIsTuple, pyEq, pyLen, lit, truthy, valBeq]
      omega
  | _ => simp [pyIf, pyAnd, pyIsTuple, truthy]

/-- `value(i, x)` once the element is fetched and unwrapped: `item[x]` under `mapping`, else `getattr(item, x)` -/
def valueOf (sv : SeqVars) (item : Val) (x : Text) : P :=
  pyIf (pyData sv (pyStr "mapping")) (pySubscr (.ok item) (.ok (.str x))) (pyGetattr (.ok item) (.ok (.str x)))

theorem valueOf_strict (sv : SeqVars) (i : Nat) (x : Text) :
    toSVal (valueOf sv (seqItem sv i) x) = seqValueStrict sv i x := by
  unfold valueOf seqValueStrict
  rw [data_mapping]
  cases hm : sv.mapping <;> cases seqItem sv i <;>
    simp only [pyIf, truthy, pySubscr, subscr, pyGetattr, exc_def, bind_ok, toSVal, asInt, if_true, if_false,
      Bool.false_eq_true]
  all_goals (first | rfl | (cases List.lookup x _ <;> rfl))

/-! ### the dispatch of `__getitem__` -/

theorem rfind_none (c : Char) (s : Text) (h : c ∉ s) : rfind c s = -1 := by
  induction s with
  | nil => rfl
  | cons a t ih =>
    have h1 : ¬ a = c := fun e => h (by simp [e])
    have h2 : c ∉ t := fun e => h (by simp [e])
    simp [rfind, ih h2, h1]

theorem rfind_split (c : Char) (p m : Text) (h : c ∉ m) : rfind c (p ++ c :: m) = p.length := by
  induction p with
  | nil => simp [rfind, rfind_none c m h]
  | cons a t ih =>
    simp only [List.cons_append, rfind, ih, List.length_cons]
    have : (0 : Int) ≤ (t.length : Int) := by omega
    simp [this]

theorem slice_split (c : Char) (p m : Text) :
    sliceFrom (p ++ c :: m) ((p.length : Int) + 1) = m ∧ sliceTo (p ++ c :: m) (p.length : Int) = p := by
  have h1 : normIdx (p ++ c :: m).length ((p.length : Int) + 1) = p.length + 1 := by
    simp only [normIdx, List.length_append, List.length_cons]
    have : (0 : Int) ≤ (p.length : Int) + 1 := by omega
    rw [if_pos this]; omega
  have h2 : normIdx (p ++ c :: m).length (p.length : Int) = p.length := by
    simp only [normIdx, List.length_append, List.length_cons]
    have : (0 : Int) ≤ (p.length : Int) := by omega
    rw [if_pos this]; omega
  constructor
  · rw [sliceFrom, h1]; simp
  · rw [sliceTo, h2]; simp

/-- the split of `__getitem__`: a key `p-m` (no '-' in `m`) that is not an entry of the dictionary goes on with prefix `p`, suffix `m` -/
theorem getitem_split (sv : SeqVars) (fuel : Nat) (p m : Text) (hm : '-' ∉ m)
    (hd : dataHas sv (p ++ '-' :: m) = none) :
    getitemGen sv (fuel + 1) (p ++ '-' :: m) = tailGen sv (getitemGen sv fuel) (p ++ '-' :: m) m p := by
  have hl : ¬ ((p.length : Int) < 0) := by omega
  simp only [getitemGen, hd, rfind_split '-' p m hm, hl, if_false, (slice_split '-' p m).1, (slice_split '-' p m).2]

theorem data_miss {α : Type} (sv : SeqVars) (k : Text) (h : dataHas sv k = none) (A : Val → α) (B : α) :
    (match dataGet sv k with | .ok v => A v | _ => B) = B := by
  unfold dataHas at h
  cases hg : dataGet sv k with
  | ok v => rw [hg] at h; cases h
  | keyError _ => rfl
  | raise _ => rfl

theorem data_index' (sv : SeqVars) (hn : sv.noIndex = false) : dataGet sv "sequence-index".toList = .ok (.int sv.index) := by
  simp only [dataGet]; rw [if_pos ⟨trivial, hn⟩]

/-- `sequence-<attribute>`: the attribute is called with `data['sequence-index']` -/
theorem getitem_sequence (sv : SeqVars) (fuel : Nat) (m : Text) (hm : '-' ∉ m) (hh : hasattrSelf m = true)
    (hn : sv.noIndex = false) (hd : dataHas sv ("sequence".toList ++ '-' :: m) = none) :
    getitemGen sv (fuel + 1) ("sequence".toList ++ '-' :: m) = callAttr sv m (.int sv.index) := by
  rw [getitem_split sv fuel _ m hm hd]
  have e : "sequence".toList ++ "-index".toList = "sequence-index".toList := by decide
  simp only [tailGen, hh, if_true, e, data_index' sv hn]

theorem getitem_first (sv : SeqVars) (fuel : Nat) (x : Text) (hx : '-' ∉ x)
    (hd : dataHas sv ("first".toList ++ '-' :: x) = none) (hi : dataHas sv "first-index".toList = none) :
    getitemGen sv (fuel + 1) ("first".toList ++ '-' :: x) =
      firstGen sv (.str x) (.str ("first".toList ++ '-' :: x)) := by
  rw [getitem_split sv fuel _ x hx hd]
  have e : "first".toList ++ "-index".toList = "first-index".toList := by decide
  have hs : isSpecialPrefix "first".toList = true := by decide
  simp only [tailGen, e, hs, if_true]
  simp only [callSpecial, if_true]
  cases hgg : dataGet sv "first-index".toList with
  | ok v => unfold dataHas at hi; rw [hgg] at hi; cases hi
  | keyError _ => simp
  | raise _ => simp

theorem getitem_last (sv : SeqVars) (fuel : Nat) (x : Text) (hx : '-' ∉ x)
    (hd : dataHas sv ("last".toList ++ '-' :: x) = none) (hi : dataHas sv "last-index".toList = none) :
    getitemGen sv (fuel + 1) ("last".toList ++ '-' :: x) =
      lastGen sv (.str x) (.str ("last".toList ++ '-' :: x)) := by
  rw [getitem_split sv fuel _ x hx hd]
  have e : "last".toList ++ "-index".toList = "last-index".toList := by decide
  have hs : isSpecialPrefix "last".toList = true := by decide
  have hne : ¬ ("last".toList = "first".toList) := by decide
  simp only [tailGen, e, hs, if_true]
  simp only [callSpecial, hne, if_false, if_true]
  cases hgg : dataGet sv "last-index".toList with
  | ok v => unfold dataHas at hi; rw [hgg] at hi; cases hi
  | keyError _ => simp
  | raise _ => simp


end DTML.Lemmas.SeqVar
