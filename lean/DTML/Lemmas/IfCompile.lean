/-
How dtml-if / dtml-unless are COMPILED: the hand-written model (from the sections of a block to the conditional of the
interpreter model, `Blk.cond` / `Blk.unless_`) and the lemmas for the obligations of Props/C09
(`gen_if_compile_is_model`, `gen_unless_compile_is_model`): `GenIfCompile.ifInitGen` / `unlessInitGen` are regenerated from
`DT_If.If.__init__` / `Unless.__init__` on every run (harness/trans_ifc.py) and store exactly the cells (`IBlock.encodeI`)
of the model's conditional - or end in the same ParseError.  No Mathlib.
-/
import DTML.GenIfCompile
import DTML.Lemmas.IBlock
set_option linter.unusedVariables false
namespace DTML.Lemmas.IfCompile
open DTML.Parse DTML.Render DTML.GenRender DTML.GenIfCompile DTML.Lemmas.IBlock

/-! ### the model -/

/-- the condition a tag compiles to: the name, or the compiled expression (`ev` = `Eval(source).eval`) -/
def condSrc (ev : Text → Expr) (t : NameOrExpr) : Src := if t.isExpr then .expr (ev t.name) else .name t.name

/-- the name or expression of an `if` / `elif` / `unless` tag, from its argument text -/
def tagCond (table : Table) (args : Text) : Except PErr NameOrExpr :=
  match parseParams table args with
  | .error e => .error e
  | .ok p =>
    match nameParam p true with
    | .error e => .error e
    | .ok (t, _) => .ok t

/-- the sections between the first and a trailing else: every one is an `elif` with its own condition -/
def elifConds (ev : Text → Expr) : List (Section Blk) → Except PErr (List (Src × List Blk))
  | [] => .ok []
  | s :: rest =>
    if s.tname == "else" then .error ⟨"more than one else tag for a single if tag"⟩
    else
      match tagCond (tbl Gen.ifParams 2) s.args with
      | .error e => .error e
      | .ok t =>
        match elifConds ev rest with
        | .error e => .error e
        | .ok cs => .ok ((condSrc ev t, s.body) :: cs)

/-- a last section called `else` is split off (it may repeat the name of the if tag, nothing else); what is left and the
else part -/
def splitElse (secs : List (Section Blk)) (name : Text) : Except PErr (List (Section Blk) × Option (List Blk)) :=
  match secs.getLast? with
  | none => .error ⟨"IndexError"⟩
  | some l =>
    if l.tname == "else" then
      match parseParams (tbl Gen.ifParams 1) l.args with
      | .error e => .error e
      | .ok ep =>
        if ep.isEmpty then .ok (secs.dropLast, some l.body)
        else
          match nameParam ep true with
          | .error e => .error e
          | .ok (et, _) =>
            if et.name != name then .error ⟨"name in else does not match if"⟩ else .ok (secs.dropLast, some l.body)
    else .ok (secs, none)

/-- dtml-if: the conditions with their bodies, in order, and the else part - the arguments of `Blk.cond` -/
def ifParts (ev : Text → Expr) (secs : List (Section Blk)) : Except PErr (List (Src × List Blk) × Option (List Blk)) :=
  match secs with
  | [] => .error ⟨"IndexError"⟩
  | s0 :: _ =>
    match tagCond (tbl Gen.ifParams 0) s0.args with
    | .error e => .error e
    | .ok t =>
      match splitElse secs t.name with
      | .error e => .error e
      | .ok (mid, els) =>
        match elifConds ev (mid.drop 1) with
        | .error e => .error e
        | .ok cs => .ok ((condSrc ev t, s0.body) :: cs, els)

/-- the block of the interpreter model a dtml-if compiles to -/
def ifBlock (ev : Text → Expr) (secs : List (Section Blk)) : Except PErr Blk :=
  match ifParts ev secs with
  | .error e => .error e
  | .ok (conds, els) => .ok (.cond conds els)

/-- dtml-unless (and the stand-alone dtml-else): the condition and the body - the arguments of `Blk.unless_` -/
def unlessParts (ev : Text → Expr) (secs : List (Section Blk)) : Except PErr (Src × List Blk) :=
  match secs with
  | [] => .error ⟨"IndexError"⟩
  | s0 :: _ =>
    match tagCond (tbl Gen.unlessParams 0) s0.args with
    | .error e => .error e
    | .ok t => .ok (condSrc ev t, s0.body)

def unlessBlock (ev : Text → Expr) (secs : List (Section Blk)) : Except PErr Blk :=
  match unlessParts ev secs with
  | .error e => .error e
  | .ok (src, body) => .ok (.unless_ src body)

/-- the compiled form of a conditional: the code letter of `render_blocks_` and the cells -/
def formOf (conds : List (Src × List Blk)) (els : Option (List Blk)) : Form := ("i", encodeI conds els)

/-! ### Python indexing -/

theorem pyGet_zero {α : Type} (l : List α) : pyGet l 0 = l.head? := by
  simp [pyGet, List.head?_eq_getElem?]

theorem pyGet_neg_one {α : Type} (l : List α) : pyGet l (-1) = l.getLast? := by
  cases l with
  | nil => simp [pyGet]
  | cons a t =>
    have h1 : ¬ ((0 : Int) ≤ -1) := by omega
    have h2 : (-1 : Int).natAbs = 1 := rfl
    simp only [pyGet, if_neg h1, h2, List.getLast?_eq_getElem?]
    simp

theorem pyDel_neg_one {α : Type} (l : List α) : pyDel l (-1) = l.dropLast := by
  have h1 : ¬ ((0 : Int) ≤ -1) := by omega
  have h2 : (-1 : Int).natAbs = 1 := rfl
  simp only [pyDel, if_neg h1, h2, List.eraseIdx_length_sub_one]

/-! ### the pieces -/

theorem tbl_if0 : tbl Gen.ifParams 0 = [("name", "''"), ("expr", "''")] := rfl
theorem tbl_if1 : tbl Gen.ifParams 1 = [("name", "''")] := rfl
theorem tbl_if2 : tbl Gen.ifParams 2 = [("name", "''"), ("expr", "''")] := rfl
theorem tbl_unless0 : tbl Gen.unlessParams 0 = [("name", "''"), ("expr", "''")] := rfl

/-- `if expr is None: cond = name else: cond = expr.eval` after `name, expr = name_param(…)` is the model's condition -/
theorem cond_of_nameParam (ev : Text → Expr) (t : NameOrExpr) :
    (match (if t.isExpr then some t.name else none : Option Text) with
     | none => Src.name t.name
     | some x => Src.expr (ev x)) = condSrc ev t := by
  unfold condSrc
  cases t.isExpr <;> rfl

/-! ### Unless.__init__ -/

theorem unlessInit_eq (ev : Text → Expr) (secs : List (Section Blk)) :
    unlessInitGen ev secs =
      (match unlessParts ev secs with
       | .error e => .error e
       | .ok (src, body) => .ok (formOf [(src, [])] (some body))) := by
  cases secs with
  | nil => rfl
  | cons s0 rest =>
    simp only [unlessInitGen, pyGet_zero, List.head?_cons, unlessParts, tagCond, tbl_unless0, nameParamGen]
    cases parseParams [("name", "''"), ("expr", "''")] s0.args with
    | error e => rfl
    | ok p =>
      simp only
      cases nameParam p true with
      | error e => rfl
      | ok r =>
        obtain ⟨t, es⟩ := r
        simp only [ok, formOf, encodeI, List.flatMap_cons, List.flatMap_nil, List.append_nil, List.cons_append,
          List.nil_append]
        rw [← cond_of_nameParam ev t]
        cases t.isExpr <;> rfl

/-! ### If.__init__ -/

/-- the loop over the sections after the first: the cells of the elif conditions are appended in order -/
theorem ifLoop_eq (ev : Text → Expr) : ∀ (l : List (Section Blk)) (acc : List ICell),
    ifLoop1Gen ev l acc =
      (match elifConds ev l with
       | .error e => .error e
       | .ok cs => .ok (acc ++ encodeI cs none)) := by
  intro l
  induction l with
  | nil => intro acc; simp [ifLoop1Gen, elifConds, encodeI, ok]
  | cons s rest ih =>
    intro acc
    simp only [ifLoop1Gen, ifStmt2Gen, elifConds, tagCond, tbl_if2, nameParamGen, ok, fail]
    cases s.tname == "else" with
    | true => rfl
    | false =>
      simp only [Bool.false_eq_true, if_false]
      cases parseParams [("name", "''"), ("expr", "''")] s.args with
      | error e => rfl
      | ok p =>
        simp only
        cases nameParam p true with
        | error e => rfl
        | ok r =>
          obtain ⟨t, es⟩ := r
          simp only [ih]
          have hc := cond_of_nameParam ev t
          cases elifConds ev rest with
          | error e => rfl
          | ok cs =>
            simp only
            rw [← hc]
            cases t.isExpr <;> simp [encodeI]

/-- the statement `if blocks[-1][0] == 'else': … else: elses = None` -/
theorem ifElse_eq (ev : Text → Expr) (secs : List (Section Blk)) (name : Text) :
    ifStmt3Gen ev secs name = splitElse secs name := by
  simp only [ifStmt3Gen, ifStmt4Gen, ifStmt5Gen, splitElse, pyGet_neg_one, pyDel_neg_one, tbl_if1, nameParamGen, ok, fail]
  cases secs.getLast? with
  | none => rfl
  | some l =>
    simp only
    cases l.tname == "else" with
    | false => rfl
    | true =>
      simp only [if_true]
      cases parseParams [("name", "''")] l.args with
      | error e => rfl
      | ok ep =>
        simp only
        cases ep.isEmpty with
        | true => rfl
        | false =>
          simp only [Bool.not_false, if_true, Bool.false_eq_true, if_false]
          cases nameParam ep true with
          | error e => rfl
          | ok r =>
            obtain ⟨et, es⟩ := r
            simp only
            cases et.name != name <;> rfl

theorem ifInit_eq (ev : Text → Expr) (secs : List (Section Blk)) :
    ifInitGen ev secs =
      (match ifParts ev secs with
       | .error e => .error e
       | .ok (conds, els) => .ok (formOf conds els)) := by
  cases secs with
  | nil => rfl
  | cons s0 rest =>
    simp only [ifInitGen, pyGet_zero, List.head?_cons, ifParts, tagCond, tbl_if0, nameParamGen, ifElse_eq, ifLoop_eq]
    cases parseParams [("name", "''"), ("expr", "''")] s0.args with
    | error e => rfl
    | ok p =>
      simp only
      cases nameParam p true with
      | error e => rfl
      | ok r =>
        obtain ⟨t, es⟩ := r
        simp only
        cases splitElse (s0 :: rest) t.name with
        | error e => rfl
        | ok r2 =>
          obtain ⟨mid, els⟩ := r2
          simp only
          cases elifConds ev (List.drop 1 mid) with
          | error e => rfl
          | ok cs =>
            simp only [ok, formOf]
            rw [← cond_of_nameParam ev t]
            cases els <;> cases t.isExpr <;> simp [encodeI]

/-! ### the errors of the compile model are the errors of the parser model's `checkBlock`

`Parse.checkBlock` is what the C06 theorems and the parser correspondence validate; `ifParts` / `unlessParts` are what the
translated constructors are proved equal to.  For a list of sections that has a first section, not called `else` (the only
lists the parser builds), the two end in a ParseError on the same inputs, with the same text. -/

/-- the ParseError a constructor ends in, if it does -/
def errOf {α : Type} : Except PErr α → Option PErr
  | .error e => some e
  | .ok _ => none

/-- what the parser model's `checkBlock` is given: the tag name and the argument text of every section -/
abbrev sigOf (secs : List (Section Blk)) : List (String × Text) := secs.map fun s => (s.tname, s.args)

theorem elif_loop_err (ev : Text → Expr) (f : String × Text → List ExprUse → Except PErr (ForInStep (List ExprUse)))
    (hf : ∀ x s, f x s = if x.fst = "else" then .error ⟨"more than one else tag for a single if tag"⟩ else
        match parseParams (tbl Gen.ifParams 2) x.snd with
        | .error e => .error e
        | .ok ep =>
          match nameParam ep true with
          | .error e => .error e
          | .ok r => .ok (.yield (s ++ r.snd))) :
    ∀ (l : List (Section Blk)) (es : List ExprUse), errOf (forIn (sigOf l) es f) = errOf (elifConds ev l) := by
  intro l
  induction l with
  | nil => intro es; rfl
  | cons s rest ih =>
    intro es
    simp only [sigOf, List.map_cons, List.forIn_cons, hf, elifConds, tagCond]
    by_cases h : s.tname = "else"
    · simp [h, errOf, bind, Except.bind]
    · simp only [h, if_false, beq_iff_eq]
      cases parseParams (tbl Gen.ifParams 2) s.args with
      | error e => rfl
      | ok ep =>
        simp only
        cases nameParam ep true with
        | error e => rfl
        | ok r =>
          simp only [bind, Except.bind]
          have := ih (es ++ r.snd)
          simp only [sigOf] at this
          rw [this]
          cases elifConds ev rest <;> rfl


/-- closes `errOf (match elifConds ev M with …) = errOf (match forIn (sigOf M) es body with …)`, `body` the loop of `checkBlock` -/
local macro "elif_leaf" ev:term "," M:term : tactic => `(tactic| (
  generalize hF : (forIn (List.map _ $M) _ _ : Except PErr (List ExprUse)) = X
  have h : errOf X = errOf (elifConds $ev $M) := by
    rw [← hF]
    refine elif_loop_err $ev _ ?_ _ _
    intro x s
    by_cases hx : x.fst = "else"
    · simp only [hx, if_true]; rfl
    · simp only [hx, if_false]
      cases parseParams (tbl Gen.ifParams 2) x.snd with
      | error e => rfl
      | ok ep =>
        simp only
        cases nameParam ep true <;> rfl
  revert h
  cases X <;> cases elifConds $ev $M <;> intro h <;> simp only [errOf] at h ⊢ <;> first | exact h.symm | cases h))

theorem if_parts_err_eq (ev : Text → Expr) (s0 : Section Blk) (rest : List (Section Blk)) (h0 : s0.tname ≠ "else") :
    errOf (ifParts ev (s0 :: rest)) = errOf (checkBlock .if_ (sigOf (s0 :: rest))) := by
  simp only [checkBlock, ifParts, tagCond, sigOf, List.map_cons, List.headD_cons, List.drop_succ_cons, List.drop_zero]
  cases parseParams (tbl Gen.ifParams 0) s0.args with
  | error e => rfl
  | ok p =>
    simp only [bind, Except.bind]
    cases nameParam p true with
    | error e => rfl
    | ok r =>
      obtain ⟨t, es⟩ := r
      simp only [splitElse, List.getLast?_cons, List.getLast?_map]
      cases hl : rest.getLast? with
      | none =>
        have : rest = [] := List.getLast?_eq_none_iff.mp hl
        subst this
        simp [h0, errOf, elifConds, pure, Except.pure]
      | some l =>
        have hne : rest ≠ [] := by intro h; subst h; cases hl
        simp only [Option.getD_some, Option.map_some, List.dropLast_cons_of_ne_nil hne]
        by_cases hle : l.tname = "else"
        · simp only [hle, beq_self_eq_true, if_true, ← List.map_dropLast]
          cases parseParams (tbl Gen.ifParams 1) l.args with
          | error e => rfl
          | ok ep =>
            simp only
            cases ep.isEmpty with
            | true =>
              simp only [if_true, pure, Except.pure, List.drop_succ_cons, List.drop_zero]
              elif_leaf ev, rest.dropLast
            | false =>
              simp only [Bool.false_eq_true, if_false]
              cases nameParam ep true with
              | error e => rfl
              | ok r =>
                obtain ⟨et, ees⟩ := r
                simp only
                cases et.name != t.name with
                | true => rfl
                | false =>
                  simp only [Bool.false_eq_true, if_false, pure, Except.pure, List.drop_succ_cons, List.drop_zero]
                  elif_leaf ev, rest.dropLast
        · simp only [hle, beq_iff_eq, if_false]
          simp only [List.drop_succ_cons, List.drop_zero]
          generalize hL : errOf (_ : Except PErr (List (Src × List Blk) × Option (List Blk))) = L
          split
          · rename_i x err heq
            split at heq
            · rename_i heq2
              simp only [Option.some.injEq, Prod.mk.injEq] at heq2
              exact absurd heq2.1 hle
            · cases heq
          · rename_i x v heq
            split at heq
            · rename_i heq2
              simp only [Option.some.injEq, Prod.mk.injEq] at heq2
              exact absurd heq2.1 hle
            · simp only [pure, Except.pure, Except.ok.injEq] at heq
              subst heq
              subst hL
              simp only [pure, Except.pure]
              elif_leaf ev, rest

theorem errOf_eq_some {α : Type} (x : Except PErr α) (e : PErr) : errOf x = some e ↔ x = .error e := by
  cases x <;> simp [errOf]

/-- dtml-unless (and the stand-alone dtml-else): one `parse_params`, one `name_param` on both sides -/
theorem unless_parts_err_eq (ev : Text → Expr) (s0 : Section Blk) (rest : List (Section Blk)) :
    errOf (unlessParts ev (s0 :: rest)) = errOf (checkBlock .unless (sigOf (s0 :: rest))) := by
  simp only [checkBlock, unlessParts, tagCond, sigOf, List.map_cons, List.headD_cons]
  cases parseParams (tbl Gen.unlessParams 0) s0.args with
  | error e => rfl
  | ok p =>
    simp only [bind, Except.bind]
    cases nameParam p true with
    | error e => rfl
    | ok r => rfl

end DTML.Lemmas.IfCompile
