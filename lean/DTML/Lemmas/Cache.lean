/-
The attribute caches of InstanceDicts are consistent: every cached entry repeats the object's own
(public) attribute.  This is an invariant of every function of the interpreter; with it, a
namespace and its cache-erased version answer every lookup with the same value.
-/
import DTML.Render
set_option linter.unusedVariables false
namespace DTML.Lemmas.Cache
open DTML.Render

/-- a frame whose cache only repeats attributes of its object -/
def ConsF : Frame → Prop
  | .inst (.obj _ attrs) cache => ∀ k v, cache.lookup k = some v → attrs.lookup k = some v ∧ k.head? ≠ some '_'
  | .inst _ cache => cache = []
  | _ => True

def Cons (st : St) : Prop := ∀ f ∈ st.stack, ConsF f

theorem consF_fresh (v : Val) : ConsF (.inst v []) := by
  cases v <;> simp [ConsF, List.lookup]

theorem cons_push (st : St) (f : Frame) (h : Cons st) (hf : ConsF f) : Cons { st with stack := f :: st.stack } := by
  intro g hg
  rcases List.mem_cons.mp hg with rfl | hg
  · exact hf
  · exact h g hg

theorem cons_pushn (st : St) (fs : List Frame) (h : Cons st) (hf : ∀ f ∈ fs, ConsF f) :
    Cons { st with stack := fs ++ st.stack } := by
  intro g hg
  rcases List.mem_append.mp hg with hg | hg
  · exact hf g hg
  · exact h g hg

theorem cons_drop (st : St) (n : Nat) (h : Cons st) : Cons { st with stack := st.stack.drop n } := by
  intro g hg
  exact h g (List.mem_of_mem_drop hg)

theorem cons_trace (st : St) (tr : List Event) (h : Cons st) : Cons { st with trace := tr } := h

theorem lookup_append_single (cache : List (Text × Val)) (key k : Text) (a v : Val)
    (h : (cache ++ [(key, a)]).lookup k = some v) : cache.lookup k = some v ∨ (k = key ∧ v = a) := by
  induction cache with
  | nil =>
    simp only [List.nil_append, List.lookup_cons] at h
    split at h
    · rename_i heq
      simp only [Option.some.injEq] at h
      exact Or.inr ⟨by simpa using heq, h.symm⟩
    · simp [List.lookup] at h
  | cons kv t ih =>
    obtain ⟨k', v'⟩ := kv
    simp only [List.cons_append, List.lookup_cons] at h ⊢
    split
    · rename_i heq
      simp only [heq] at h
      exact Or.inl h
    · rename_i hne
      simp only [hne] at h
      exact ih h

/-- one frame lookup keeps the frame consistent -/
theorem frameGet_cons (env : Env) (f : Frame) (key : Text) (tr : List Event) (v : Val) (f' : Frame) (tr' : List Event)
    (hf : ConsF f) (h : frameGet env f key tr = (.val v f', tr')) : ConsF f' := by
  cases f with
  | bad => simp [frameGet] at h
  | dict kvs =>
    simp only [frameGet] at h
    split at h
    · simp only [Prod.mk.injEq, Found.val.injEq] at h
      obtain ⟨⟨_, rfl⟩, _⟩ := h
      exact hf
    · cases h
  | seq sv =>
    simp only [frameGet] at h
    split at h
    · simp only [Prod.mk.injEq, Found.val.injEq] at h
      obtain ⟨⟨_, rfl⟩, _⟩ := h
      exact hf
    · cases h
    · cases h
  | inst w cache =>
    simp only [frameGet] at h
    split at h
    · simp only [Prod.mk.injEq, Found.val.injEq] at h
      obtain ⟨⟨_, rfl⟩, _⟩ := h
      exact hf
    · split at h
      · split at h
        · simp only [Prod.mk.injEq, Found.val.injEq] at h
          obtain ⟨⟨_, rfl⟩, _⟩ := h
          exact hf
        · cases h
      · rename_i hund
        cases w with
        | obj id attrs =>
          simp only at h
          split at h
          · cases h
          · split at h
            · rename_i a ha
              simp only [Prod.mk.injEq, Found.val.injEq] at h
              obtain ⟨⟨_, rfl⟩, _⟩ := h
              intro k v' hk
              rcases lookup_append_single cache key k a v' hk with h1 | ⟨rfl, rfl⟩
              · exact hf k v' h1
              · exact ⟨ha, hund⟩
            · cases h
        | _ => simp at h

theorem lookupStack_cons (env : Env) : ∀ (stack : List Frame) (key : Text) (tr : List Event) (v : Val)
    (stack' : List Frame) (tr' : List Event), (∀ f ∈ stack, ConsF f) →
    lookupStack env stack key tr = (.val v stack', tr') → ∀ f ∈ stack', ConsF f := by
  intro stack
  induction stack with
  | nil => intro key tr v stack' tr' _ h; simp [lookupStack] at h
  | cons f fs ih =>
    intro key tr v stack' tr' hc h
    unfold lookupStack at h
    split at h
    · rename_i v1 f1 tr1 hf
      simp only [Prod.mk.injEq, Looked.val.injEq] at h
      obtain ⟨⟨_, rfl⟩, _⟩ := h
      intro g hg
      rcases List.mem_cons.mp hg with rfl | hg
      · exact frameGet_cons env f key tr v1 _ tr1 (hc f (List.mem_cons_self ..)) hf
      · exact hc g (List.mem_cons_of_mem _ hg)
    · cases h
    · split at h
      · rename_i v1 fs1 tr2 hl
        simp only [Prod.mk.injEq, Looked.val.injEq] at h
        obtain ⟨⟨_, rfl⟩, _⟩ := h
        intro g hg
        rcases List.mem_cons.mp hg with rfl | hg
        · exact hc _ (List.mem_cons_self ..)
        · exact ih key _ v1 fs1 tr2 (fun x hx => hc x (List.mem_cons_of_mem _ hx)) hl g hg
      · rename_i r tr2 hne hl
        simp only [Prod.mk.injEq] at h
        obtain ⟨rfl, _⟩ := h
        exact (hne v stack' rfl).elim


structure IH (env : Env) (fuel : Nat) : Prop where
  getitem : ∀ key call st, Cons st → Cons (getitem env fuel key call st).2
  callSub : ∀ id st, Cons st → Cons (callSub env fuel id st).2
  evalExpr : ∀ e st, Cons st → Cons (evalExpr env fuel e st).2
  evalSrc : ∀ s st, Cons st → Cons (evalSrc env fuel s st).2
  fetchVar : ∀ s hq null st, Cons st → Cons (fetchVar env fuel s hq null st).2
  renderBlocks : ∀ bs st, Cons st → Cons (renderBlocks env fuel bs st).2
  withFrame : ∀ f body st, ConsF f → Cons st → Cons (withFrame env fuel f body st).2
  renderJoined : ∀ body st, Cons st → Cons (renderJoined env fuel body st).2
  framed : ∀ f body st, ConsF f → Cons st → Cons (framed env fuel f body st).2
  inIter : ∀ sv o body i st, Cons st → Cons (inIter env fuel sv o body i st).2
  raiseClass : ∀ cls e st, Cons st → Cons (raiseClass env fuel cls e st).2
  renderBlk : ∀ b st, Cons st → Cons (renderBlk env fuel b st).2
  condLoop : ∀ cs els st, Cons st → Cons (condLoop env fuel cs els st).2
  inLoop : ∀ sv o body i st, Cons st → Cons (inLoop env fuel sv o body i st).2
  inLoopB : ∀ sv o w body i st, Cons st → Cons (inLoopB env fuel sv o w body i st).2
  inBatch : ∀ sv o bp w body els cache st, (∀ f ∈ cache, ConsF f) → Cons st → Cons (inBatch env fuel sv o bp w body els cache st).2
  resolveNames : ∀ names bp bad st, Cons st → Cons (resolveNames env fuel names bp bad st).2
  evalSortKey : ∀ x st, Cons st → Cons (evalSortKey env fuel x st).2
  evalReverse : ∀ x st, Cons st → Cons (evalReverse env fuel x st).2
  letLoop : ∀ binds body st, Cons st → Cons (letLoop env fuel binds body st).2

theorem ih_zero (env : Env) : IH env 0 where
  getitem := fun key call st h => by unfold Render.getitem; exact h
  callSub := fun id st h => by unfold Render.callSub; exact h
  evalExpr := fun e st h => by unfold Render.evalExpr; exact h
  evalSrc := fun s st h => by unfold Render.evalSrc; exact h
  fetchVar := fun s hq null st h => by unfold Render.fetchVar; exact h
  renderBlocks := fun bs st h => by unfold Render.renderBlocks; exact h
  withFrame := fun f body st _ h => by unfold Render.withFrame; exact h
  renderJoined := fun body st h => by unfold Render.renderJoined; exact h
  framed := fun f body st _ h => by unfold Render.framed; exact h
  inIter := fun sv o body i st h => by unfold Render.inIter; exact h
  raiseClass := fun cls e st h => by unfold Render.raiseClass; exact h
  renderBlk := fun b st h => by unfold Render.renderBlk; exact h
  condLoop := fun cs els st h => by unfold Render.condLoop; exact h
  inLoop := fun sv o body i st h => by unfold Render.inLoop; exact h
  inLoopB := fun sv o w body i st h => by unfold Render.inLoopB; exact h
  inBatch := fun sv o bp w body els cache st _ h => by unfold Render.inBatch; exact h
  resolveNames := fun names bp bad st h => by unfold Render.resolveNames; exact h
  evalSortKey := fun x st h => by unfold Render.evalSortKey; exact h
  evalReverse := fun x st h => by unfold Render.evalReverse; exact h
  letLoop := fun binds body st h => by unfold Render.letLoop; exact h

theorem invoke_cons (env : Env) (id : Nat) (r : Val) (st : St) (h : Cons st) : Cons (invoke env id r st).2 := by
  unfold invoke
  split
  · exact h
  · split <;> exact h

theorem getitem_step (env : Env) (fuel : Nat) (ih : IH env fuel) (key : Text) (call : Bool) (st : St) (h : Cons st) :
    Cons (getitem env (fuel + 1) key call st).2 := by
  unfold Render.getitem
  split
  · exact h
  · exact h
  · rename_i v stack' tr hl
    have hst : Cons { st with stack := stack', trace := tr } := lookupStack_cons env _ _ _ _ _ _ h hl
    dsimp only
    split
    · split
      · exact invoke_cons _ _ _ _ hst
      · exact ih.callSub _ _ hst
      · exact hst
    · exact hst

theorem callSub_step (env : Env) (fuel : Nat) (ih : IH env fuel) (id : Nat) (st : St) (h : Cons st) :
    Cons (callSub env (fuel + 1) id st).2 := by
  unfold Render.callSub
  split
  · exact h
  · rename_i t ht
    dsimp only
    split
    · exact h
    · have hpush : Cons { st with stack := (if t.vars.isEmpty = true then [] else [Frame.dict t.vars]) ++
          (if t.globals.isEmpty = true then [] else [Frame.dict t.globals]) ++ st.stack, level := st.level + 1 } := by
        intro g hg
        simp only [List.append_assoc, List.mem_append] at hg
        rcases hg with hg | hg | hg
        · split at hg <;> simp at hg; subst hg; trivial
        · split at hg <;> simp at hg; subst hg; trivial
        · exact h g hg
      have hr := ih.renderBlocks t.blocks _ hpush
      generalize renderBlocks env fuel t.blocks _ = res at hr
      obtain ⟨r, st2⟩ := res
      have hfin : ∀ n, Cons { st2 with stack := st2.stack.drop n, level := st.level } := fun n => cons_drop st2 n hr
      dsimp only
      split
      · split <;> exact hfin _
      · exact hfin _
      · exact hfin _
      · exact hfin _

theorem evalSrc_step (env : Env) (fuel : Nat) (ih : IH env fuel) (s : Src) (st : St) (h : Cons st) :
    Cons (evalSrc env (fuel + 1) s st).2 := by
  cases s with
  | name n => simp only [evalSrc]; exact ih.getitem _ _ _ h
  | expr e => simp only [evalSrc]; exact ih.evalExpr _ _ h

theorem insertVal_snd (env : Env) (hq : Bool) (null : Option Text) (v : Val) (st : St) :
    (insertVal env hq null v st).2 = st := by
  unfold insertVal
  simp only
  generalize (null.isSome && !truthy v && (match v with | .int _ => false | .bool _ => false | _ => true)) = c
  cases c
  · simp only [Bool.false_eq_true, if_false]
    cases hq
    · rfl
    · simp only [if_true]
      cases htmlQuote env (pieceOfVal v) <;> rfl
  · rfl

theorem fetchVar_step (env : Env) (fuel : Nat) (ih : IH env fuel) (s : Src) (hq : Bool) (null : Option Text) (st : St)
    (h : Cons st) : Cons (fetchVar env (fuel + 1) s hq null st).2 := by
  simp only [fetchVar]
  have hr := ih.evalSrc s st h
  generalize evalSrc env fuel s st = res at hr
  obtain ⟨r, st'⟩ := res
  cases r with
  | ok v => simp only [insertVal_snd]; exact hr
  | raise e => exact hr
  | ret v => exact hr
  | oom => exact hr

theorem renderBlocks_step (env : Env) (fuel : Nat) (ih : IH env fuel) (bs : List Blk) (st : St) (h : Cons st) :
    Cons (renderBlocks env (fuel + 1) bs st).2 := by
  cases bs with
  | nil => simp only [renderBlocks]; exact h
  | cons b rest =>
    simp only [renderBlocks]
    have h1 := ih.renderBlk b st h
    generalize renderBlk env fuel b st = res1 at h1
    obtain ⟨r1, st1⟩ := res1
    cases r1 with
    | ok ps =>
      dsimp only
      have h2 := ih.renderBlocks rest st1 h1
      generalize renderBlocks env fuel rest st1 = res2 at h2
      obtain ⟨r2, st2⟩ := res2
      cases r2 <;> exact h2
    | raise e => exact h1
    | ret v => exact h1
    | oom => exact h1

theorem withFrame_step (env : Env) (fuel : Nat) (ih : IH env fuel) (f : Frame) (body : List Blk) (st : St)
    (hf : ConsF f) (h : Cons st) : Cons (withFrame env (fuel + 1) f body st).2 := by
  simp only [withFrame]
  exact cons_drop _ 1 (ih.renderBlocks _ _ (cons_push st f h hf))

theorem joinRes_snd (env : Env) (r : Res (List Piece)) (st : St) : (joinRes env r st).2 = st := by
  unfold joinRes
  cases r with
  | ok ps => dsimp only; split <;> rfl
  | raise e => rfl
  | ret v => rfl
  | oom => rfl

theorem oneRes_snd (r : Res Piece × St) : (oneRes r).2 = r.2 := by
  obtain ⟨r, st⟩ := r
  cases r <;> rfl

theorem join2_snd (env : Env) (p q : Piece) (st : St) : (join2 env p q st).2 = st := by
  unfold join2; split <;> rfl

theorem renderJoined_step (env : Env) (fuel : Nat) (ih : IH env fuel) (body : List Blk) (st : St) (h : Cons st) :
    Cons (renderJoined env (fuel + 1) body st).2 := by
  simp only [renderJoined, joinRes_snd]
  exact ih.renderBlocks _ _ h

theorem framed_step (env : Env) (fuel : Nat) (ih : IH env fuel) (f : Frame) (body : List Blk) (st : St)
    (hf : ConsF f) (h : Cons st) : Cons (framed env (fuel + 1) f body st).2 := by
  simp only [framed, joinRes_snd]
  exact ih.withFrame _ _ _ hf h

theorem inIter_step (env : Env) (fuel : Nat) (ih : IH env fuel) (sv : SeqVars) (o : InOpts) (body : List Blk) (i : Nat)
    (st : St) (h : Cons st) : Cons (inIter env (fuel + 1) sv o body i st).2 := by
  have key : ∀ (isStr : Bool), Cons
      (if o.noPush = true then renderJoined env fuel body st
       else if o.mapping = true then
         framed env fuel (match seqItem sv i with | .dict kvs => Frame.dict kvs | _ => Frame.bad) body st
       else if isStr = true then renderJoined env fuel body st
       else framed env fuel (.inst (seqItem sv i) []) body st).2 := by
    intro isStr
    split
    · exact ih.renderJoined _ _ h
    · split
      · refine ih.framed _ _ _ ?_ h
        split <;> trivial
      · split
        · exact ih.renderJoined _ _ h
        · exact ih.framed _ _ _ (consF_fresh _) h
  simp only [inIter]
  exact key _

theorem raiseClass_step (env : Env) (fuel : Nat) (ih : IH env fuel) (cls : Text) (e : Option Expr) (st : St) (h : Cons st) :
    Cons (raiseClass env (fuel + 1) cls e st).2 := by
  unfold Render.raiseClass
  cases e with
  | none => exact h
  | some e =>
    dsimp only
    have hr := ih.evalExpr e st h
    generalize evalExpr env fuel e st = res at hr
    obtain ⟨r, st'⟩ := res
    split
    · rename_i heq; cases heq; exact hr
    · rename_i heq; cases heq; exact hr
    · rename_i heq; cases heq; exact hr
    · rename_i heq; cases heq; exact hr


theorem evalExpr_step (env : Env) (fuel : Nat) (ih : IH env fuel) (e : Expr) (st : St) (h : Cons st) :
    Cons (evalExpr env (fuel + 1) e st).2 := by
  cases e with
  | lit v => simp only [evalExpr]; exact h
  | name n =>
    simp only [evalExpr]
    have hr := ih.getitem n false st h
    generalize getitem env fuel n false st = res at hr
    obtain ⟨r, st'⟩ := res
    cases r with
    | raise e => dsimp only; split <;> exact hr
    | ok v => exact hr
    | ret v => exact hr
    | oom => exact hr
  | under n => simp only [evalExpr]; exact ih.getitem _ _ _ h
  | not a =>
    simp only [evalExpr]
    have hr := ih.evalExpr a st h
    generalize evalExpr env fuel a st = res at hr
    obtain ⟨r, st'⟩ := res
    cases r <;> exact hr
  | eq a b =>
    simp only [evalExpr]
    have hr := ih.evalExpr a st h
    generalize evalExpr env fuel a st = res at hr
    obtain ⟨r, st'⟩ := res
    cases r with
    | ok va =>
      dsimp only
      have h2 := ih.evalExpr b st' hr
      generalize evalExpr env fuel b st' = res2 at h2
      obtain ⟨r2, st''⟩ := res2
      cases r2 <;> exact h2
    | raise e => exact hr
    | ret v => exact hr
    | oom => exact hr
  | call f =>
    simp only [evalExpr]
    have hr := ih.evalExpr f st h
    generalize evalExpr env fuel f st = res at hr
    obtain ⟨r, st'⟩ := res
    cases r with
    | ok v =>
      cases v <;> first
        | exact hr
        | exact invoke_cons _ _ _ _ hr
    | raise e => exact hr
    | ret v => exact hr
    | oom => exact hr
  | attr a name =>
    simp only [evalExpr]
    have hr := ih.evalExpr a st h
    generalize evalExpr env fuel a st = res at hr
    obtain ⟨r, st'⟩ := res
    cases r with
    | ok v =>
      cases v <;> first
        | exact hr
        | (dsimp only
           repeat' split
           all_goals exact hr)
    | raise e => exact hr
    | ret v => exact hr
    | oom => exact hr
  | item a k =>
    simp only [evalExpr]
    have hr := ih.evalExpr a st h
    generalize evalExpr env fuel a st = res at hr
    obtain ⟨r, st'⟩ := res
    cases r with
    | ok v =>
      cases v <;> first
        | exact hr
        | (dsimp only
           repeat' split
           all_goals exact hr)
    | raise e => exact hr
    | ret v => exact hr
    | oom => exact hr

/-- `cache[n] = v` on a dictionary frame keeps consistency (dictionaries carry no obligation) -/
theorem settop_cons (st : St) (n : Text) (v : Val) (h : Cons st) :
    Cons (match st.stack with
      | .dict kvs :: fs => { st with stack := .dict (kvs.filter (·.1 != n) ++ [(n, v)]) :: fs }
      | _ => st) := by
  split
  · rename_i kvs fs hs
    intro g hg
    rcases List.mem_cons.mp hg with rfl | hg
    · trivial
    · exact h g (by rw [hs]; exact List.mem_cons_of_mem _ hg)
  · exact h

theorem condLoop_step (env : Env) (fuel : Nat) (ih : IH env fuel) (cs : List (Src × List Blk)) (els : Option (List Blk))
    (st : St) (h : Cons st) : Cons (condLoop env (fuel + 1) cs els st).2 := by
  cases cs with
  | nil =>
    simp only [condLoop]
    split
    · exact ih.renderBlocks _ _ h
    · exact h
  | cons c rest =>
    obtain ⟨src, body⟩ := c
    simp only [condLoop]
    have hdec : ∀ (v : Val) (s : St), Cons s →
        Cons (if truthy v = true then renderBlocks env fuel body s else condLoop env fuel rest els s).2 := by
      intro v s hs
      split
      · exact ih.renderBlocks _ _ hs
      · exact ih.condLoop _ _ _ hs
    cases src with
    | name n =>
      dsimp only
      have hr := ih.getitem n true st h
      generalize getitem env fuel n true st = res at hr
      obtain ⟨r, st'⟩ := res
      cases r with
      | ok v => dsimp only; exact hdec _ _ (settop_cons st' n v hr)
      | raise e =>
        dsimp only
        split
        · exact hdec _ _ hr
        · exact hr
      | ret v => exact hr
      | oom => exact hr
    | expr e =>
      dsimp only
      have hr := ih.evalExpr e st h
      generalize evalExpr env fuel e st = res at hr
      obtain ⟨r, st'⟩ := res
      cases r with
      | ok v => exact hdec _ _ hr
      | raise e => exact hr
      | ret v => exact hr
      | oom => exact hr

theorem letLoop_step (env : Env) (fuel : Nat) (ih : IH env fuel) (binds : List (Text × Src)) (body : List Blk) (st : St)
    (h : Cons st) : Cons (letLoop env (fuel + 1) binds body st).2 := by
  cases binds with
  | nil =>
    simp only [letLoop, oneRes_snd]
    exact ih.renderJoined body st h
  | cons b rest =>
    obtain ⟨n, src⟩ := b
    simp only [letLoop]
    have hr := ih.evalSrc src st h
    generalize evalSrc env fuel src st = res at hr
    obtain ⟨r, st'⟩ := res
    cases r with
    | ok v => dsimp only; exact ih.letLoop _ _ _ (settop_cons st' n v hr)
    | raise e => exact hr
    | ret v => exact hr
    | oom => exact hr

theorem inLoop_step (env : Env) (fuel : Nat) (ih : IH env fuel) (sv : SeqVars) (o : InOpts) (body : List Blk) (i : Nat)
    (st : St) (h : Cons st) : Cons (inLoop env (fuel + 1) sv o body i st).2 := by
  have key : ∀ (sv' : SeqVars) (st1 : St), Cons st1 →
      Cons (match inIter env fuel sv' o body i st1 with
        | (.ok p, st2) =>
          (match inLoop env fuel sv' o body (i + 1) st2 with
           | (.ok ps, st3) => ((.ok (p :: ps) : Res (List Piece)), st3)
           | r => r)
        | (.raise e, st2) => (.raise e, st2)
        | (.ret v, st2) => (.ret v, st2)
        | (.oom, st2) => (.oom, st2)).2 := by
    intro sv' st1 h1
    have h2 := ih.inIter sv' o body i st1 h1
    generalize inIter env fuel sv' o body i st1 = res at h2
    obtain ⟨r, st2⟩ := res
    cases r with
    | ok p =>
      simp only
      have h3 := ih.inLoop sv' o body (i + 1) st2 h2
      generalize inLoop env fuel sv' o body (i + 1) st2 = res3 at h3
      obtain ⟨r3, st3⟩ := res3
      cases r3 <;> exact h3
    | raise e => exact h2
    | ret v => exact h2
    | oom => exact h2
  simp only [inLoop]
  split
  · exact h
  · have hg : Cons (if env.guardOn = true then { st with trace := st.trace ++ [Event.gitem 0 i] } else st) := by
      split <;> exact h
    generalize (if env.guardOn = true then { st with trace := st.trace ++ [Event.gitem 0 i] } else st) = st0 at hg ⊢
    split
    · split
      · exact ih.inLoop _ _ _ _ _ hg
      · exact hg
    · apply key
      split
      · rename_i x fs hs
        intro g hgm
        rcases List.mem_cons.mp hgm with rfl | hgm
        · trivial
        · exact hg g (by rw [hs]; exact List.mem_cons_of_mem _ hgm)
      · exact hg


theorem inLoopB_step (env : Env) (fuel : Nat) (ih : IH env fuel) (sv : SeqVars) (o : InOpts) (w : BWin) (body : List Blk)
    (i : Nat) (st : St) (h : Cons st) : Cons (inLoopB env (fuel + 1) sv o w body i st).2 := by
  have key : ∀ (sv' sv'' : SeqVars) (st1 : St), Cons st1 →
      Cons (match inIter env fuel sv' o body i st1 with
        | (.ok p, st2) =>
          (match inLoopB env fuel sv'' o w body (i + 1) st2 with
           | (.ok ps, st3) => ((.ok (p :: ps) : Res (List Piece)), st3)
           | r => r)
        | (.raise e, st2) => (.raise e, st2)
        | (.ret v, st2) => (.ret v, st2)
        | (.oom, st2) => (.oom, st2)).2 := by
    intro sv' sv'' st1 h1
    have h2 := ih.inIter sv' o body i st1 h1
    generalize inIter env fuel sv' o body i st1 = res at h2
    obtain ⟨r, st2⟩ := res
    cases r with
    | ok p =>
      simp only
      have h3 := ih.inLoopB sv'' o w body (i + 1) st2 h2
      generalize inLoopB env fuel sv'' o w body (i + 1) st2 = res3 at h3
      obtain ⟨r3, st3⟩ := res3
      cases r3 <;> exact h3
    | raise e => exact h2
    | ret v => exact h2
    | oom => exact h2
  simp only [inLoopB]
  split
  · exact h
  · have hg : Cons (if env.guardOn = true then { st with trace := st.trace ++ [Event.gitem 0 i] } else st) := by
      split <;> exact h
    generalize (if env.guardOn = true then { st with trace := st.trace ++ [Event.gitem 0 i] } else st) = st0 at hg ⊢
    split
    · split
      · exact ih.inLoopB _ _ _ _ _ _ hg
      · exact hg
    · apply key
      split
      · rename_i x fs hs
        intro g hgm
        rcases List.mem_cons.mp hgm with rfl | hgm
        · trivial
        · exact hg g (by rw [hs]; exact List.mem_cons_of_mem _ hgm)
      · exact hg

theorem cons_push_seq (st : St) (sv : SeqVars) (cache : List Frame) (hc : ∀ f ∈ cache, ConsF f) (h : Cons st) :
    Cons { st with stack := (Frame.seq sv :: cache) ++ st.stack } := by
  apply cons_pushn st _ h
  intro f hf
  rcases List.mem_cons.mp hf with rfl | hf
  · trivial
  · exact hc f hf

theorem inBatch_step (env : Env) (fuel : Nat) (ih : IH env fuel) (sv0 : SeqVars) (o : InOpts) (bp : BatchP) (w : BWin)
    (body : List Blk) (els : Option (List Blk)) (cache : List Frame) (st : St) (hc : ∀ f ∈ cache, ConsF f) (h : Cons st) :
    Cons (inBatch env (fuel + 1) sv0 o bp w body els cache st).2 := by
  unfold inBatch
  dsimp only
  apply cons_drop
  split
  · split
    · exact ih.renderJoined _ _ (cons_push_seq st _ cache hc h)
    · cases els with
      | some e => exact ih.renderJoined _ _ (cons_push_seq st _ cache hc h)
      | none => exact cons_push_seq st _ cache hc h
  · split
    · split
      · exact ih.renderJoined _ _ (cons_push_seq st _ cache hc h)
      · cases els with
        | some e => exact ih.renderJoined _ _ (cons_push_seq st _ cache hc h)
        | none => exact cons_push_seq st _ cache hc h
    · have hl := ih.inLoopB sv0 o w body w.first _ (cons_push_seq st sv0 cache hc h)
      generalize inLoopB env fuel sv0 o w body w.first { st with stack := (Frame.seq sv0 :: cache) ++ st.stack } = res at hl ⊢
      obtain ⟨r, s⟩ := res
      cases r with
      | ok ps => dsimp only; split <;> exact hl
      | raise e => exact hl
      | ret x => exact hl
      | oom => exact hl

theorem sortKeyOf_cons (env : Env) (m : Bool) (k : Text) (x : Val) (st : St) (h : Cons st) : Cons (sortKeyOf env m k x st).2 := by
  unfold sortKeyOf
  dsimp only
  split
  · split <;> exact h
  all_goals exact h

theorem sortKeys_cons (env : Env) (m : Bool) (k : Text) (xs : List Val) (st : St) (h : Cons st) :
    Cons (sortKeys env m k xs st).2 := by
  induction xs generalizing st with
  | nil => exact h
  | cons x xs ih =>
    unfold sortKeys
    have h1 := sortKeyOf_cons env m k x st h
    generalize sortKeyOf env m k x st = res at h1
    obtain ⟨r, st'⟩ := res
    cases r with
    | ok key =>
      dsimp only
      have h2 := ih st' h1
      generalize sortKeys env m k xs st' = res2 at h2
      obtain ⟨r2, st''⟩ := res2
      cases r2 <;> exact h2
    | raise e => exact h1
    | ret v => exact h1
    | oom => exact h1

theorem arrange_cons (env : Env) (o : InOpts) (x : InXOpts) (xs : List Val) (st : St) (h : Cons st) :
    Cons (arrange env o x xs st).2 := by
  unfold arrange
  have hs : Cons (sortPart env o x xs st).2 := by
    unfold sortPart
    cases x.sortKey with
    | none => exact h
    | some k =>
      dsimp only
      have h1 := sortKeys_cons env o.mapping k xs st h
      generalize sortKeys env o.mapping k xs st = res at h1
      obtain ⟨r, st'⟩ := res
      cases r with
      | ok dec => dsimp only; split <;> exact h1
      | raise e => exact h1
      | ret v => exact h1
      | oom => exact h1
  generalize sortPart env o x xs st = res at hs ⊢
  obtain ⟨r, st'⟩ := res
  cases r <;> exact hs

theorem cacheOf_consF (src : Src) (v : Val) : ∀ f ∈ cacheOf src v, ConsF f := by
  intro f hf
  unfold cacheOf at hf
  cases src <;> simp at hf
  subst hf; trivial

theorem resolveNames_step (env : Env) (fuel : Nat) (ih : IH env fuel) (names : List (Text × Text)) (bp : BatchP) (bad : Bool)
    (st : St) (h : Cons st) : Cons (resolveNames env (fuel + 1) names bp bad st).2 := by
  cases names with
  | nil => unfold resolveNames; exact h
  | cons pn rest =>
    obtain ⟨p, n⟩ := pn
    unfold resolveNames
    dsimp only
    have h1 := ih.getitem n true st h
    generalize getitem env fuel n true st = res at h1
    obtain ⟨r, st'⟩ := res
    have h1 : Cons st' := h1
    cases r with
    | ok v =>
      dsimp only
      cases paramInt v with
      | ok i => exact ih.resolveNames _ _ _ _ h1
      | bad => exact ih.resolveNames _ _ _ _ h1
      | valueError =>
        dsimp only
        split
        · exact ih.resolveNames _ _ _ _ h1
        · exact h1
    | raise e =>
      dsimp only
      split
      · exact ih.resolveNames _ _ _ _ h1
      · exact h1
    | ret v =>
      dsimp only
      split
      · exact ih.resolveNames _ _ _ _ h1
      · exact h1
    | oom => exact h1

theorem evalSortKey_step (env : Env) (fuel : Nat) (ih : IH env fuel) (x : InXOpts) (st : St) (h : Cons st) :
    Cons (evalSortKey env (fuel + 1) x st).2 := by
  unfold evalSortKey
  cases x.sortExpr with
  | none => exact h
  | some e =>
    dsimp only
    have h1 := ih.evalExpr e st h
    generalize evalExpr env fuel e st = res at h1
    obtain ⟨r, st'⟩ := res
    cases r with
    | ok v => cases v <;> exact h1
    | raise ex => exact h1
    | ret v => exact h1
    | oom => exact h1

theorem evalReverse_step (env : Env) (fuel : Nat) (ih : IH env fuel) (x : InXOpts) (st : St) (h : Cons st) :
    Cons (evalReverse env (fuel + 1) x st).2 := by
  unfold evalReverse
  cases x.reverseExpr with
  | none => exact h
  | some e =>
    dsimp only
    have h1 := ih.evalExpr e st h
    generalize evalExpr env fuel e st = res at h1
    obtain ⟨r, st'⟩ := res
    cases r <;> exact h1

theorem sortPart_cons (env : Env) (o : InOpts) (x : InXOpts) (xs : List Val) (st : St) (h : Cons st) :
    Cons (sortPart env o x xs st).2 := by
  unfold sortPart
  cases x.sortKey with
  | none => exact h
  | some k =>
    dsimp only
    have h1 := sortKeys_cons env o.mapping k xs st h
    generalize sortKeys env o.mapping k xs st = res at h1
    obtain ⟨r, st'⟩ := res
    cases r with
    | ok dec => dsimp only; split <;> exact h1
    | raise e => exact h1
    | ret v => exact h1
    | oom => exact h1

theorem withFrame_consF (mapping : Bool) (v : Val) :
    ConsF (if mapping = true then (match v with | .dict kvs => Frame.dict kvs | _ => Frame.bad)
           else Frame.inst (match v with | .tuple [x] => x | v => v) []) := by
  split
  · split <;> trivial
  · exact consF_fresh _

theorem renderBlk_step (env : Env) (fuel : Nat) (ih : IH env fuel) (b : Blk) (st : St) (h : Cons st) :
    Cons (renderBlk env (fuel + 1) b st).2 := by
  have hpush : Cons { st with stack := .dict [] :: st.stack } := cons_push st _ h trivial
  cases b with
  | lit s => unfold renderBlk; exact h
  | comment => unfold renderBlk; exact h
  | var src hq missing null =>
    unfold renderBlk
    dsimp only
    cases src with
    | expr e => exact ih.fetchVar _ _ _ _ h
    | name n =>
      dsimp only
      split
      · split
        · split <;> exact h
        · exact h
        · rename_i v stack' tr hl
          exact ih.fetchVar _ _ _ _ (lookupStack_cons env _ _ _ _ _ _ h hl)
      · exact ih.fetchVar _ _ _ _ h
  | call src =>
    unfold renderBlk
    dsimp only
    have hr := ih.condLoop [(src, [])] none _ hpush
    generalize condLoop env fuel [(src, [])] none { st with stack := .dict [] :: st.stack } = res at hr
    obtain ⟨r, st'⟩ := res
    have hp := cons_drop st' 1 hr
    cases r <;> exact hp
  | cond conds els =>
    unfold renderBlk
    dsimp only
    exact cons_drop _ 1 (ih.condLoop _ _ _ hpush)
  | unless_ src body =>
    unfold renderBlk
    dsimp only
    exact cons_drop _ 1 (ih.condLoop _ _ _ hpush)
  | let_ binds body =>
    unfold renderBlk
    dsimp only
    exact cons_drop _ 1 (ih.letLoop _ _ _ hpush)
  | ret src =>
    unfold renderBlk
    dsimp only
    have hr := ih.evalSrc src st h
    generalize evalSrc env fuel src st = res at hr
    obtain ⟨r, st'⟩ := res
    cases r <;> exact hr
  | raise_ cls clsExpr body =>
    unfold renderBlk
    dsimp only
    have h0 := ih.raiseClass cls clsExpr st h
    generalize raiseClass env fuel cls clsExpr st = rc at h0
    obtain ⟨cn, st0⟩ := rc
    cases cn with
    | none => exact h0
    | some cn =>
      dsimp only
      have h1 := ih.renderJoined body st0 h0
      generalize renderJoined env fuel body st0 = res at h1
      obtain ⟨r, st1⟩ := res
      cases r <;> exact h1
  | tryFin body fin =>
    unfold renderBlk
    dsimp only
    have h1 := ih.renderJoined body st h
    generalize renderJoined env fuel body st = res1 at h1
    obtain ⟨r, st1⟩ := res1
    have hrest : Cons (match renderJoined env fuel fin st1 with
        | (.ok q, st2) =>
          (match r with
           | .ok p => join2 env p q st2
           | .raise e => (.raise e, st2)
           | .ret v => (.ret v, st2)
           | .oom => (.oom, st2))
        | (.raise e, st2) => (.raise e, st2)
        | (.ret v, st2) => (.ret v, st2)
        | (.oom, st2) => (.oom, st2)).2 := by
      have h2 := ih.renderJoined fin st1 h1
      generalize renderJoined env fuel fin st1 = res2 at h2
      obtain ⟨r2, st2⟩ := res2
      cases r2 with
      | ok q =>
        cases r with
        | ok p => dsimp only; rw [join2_snd]; exact h2
        | raise e => exact h2
        | ret v => exact h2
        | oom => exact h2
      | raise e => exact h2
      | ret v => exact h2
      | oom => exact h2
    cases r with
    | oom => exact h1
    | ok p => exact hrest
    | raise e => exact hrest
    | ret v => exact hrest
  | try_ body handlers els =>
    unfold renderBlk
    dsimp only
    have h1 := ih.renderJoined body st h
    generalize renderJoined env fuel body st = res1 at h1
    obtain ⟨r, st1⟩ := res1
    cases r with
    | ok p =>
      dsimp only
      cases els with
      | none => exact h1
      | some e =>
        dsimp only
        have h2 := ih.renderJoined e st1 h1
        generalize renderJoined env fuel e st1 = res2 at h2
        obtain ⟨r2, st2⟩ := res2
        cases r2 with
        | ok q => dsimp only; rw [join2_snd]; exact h2
        | raise x => exact h2
        | ret x => exact h2
        | oom => exact h2
    | ret v => exact h1
    | oom => exact h1
    | raise ex =>
      dsimp only
      split
      · exact h1
      · rw [oneRes_snd]
        exact ih.framed _ _ _ (by simp [ConsF, List.lookup]) h1
  | with_ src mapping only body =>
    unfold renderBlk
    dsimp only
    have hr := ih.evalSrc src st h
    generalize evalSrc env fuel src st = res at hr
    obtain ⟨r, st'⟩ := res
    cases r with
    | ok v =>
      dsimp only
      have hfr := withFrame_consF mapping v
      split
      · rw [oneRes_snd]
        exact hr
      · rw [oneRes_snd]
        exact ih.framed _ _ _ hfr hr
    | raise e => exact hr
    | ret v => exact hr
    | oom => exact hr
  | in_ src o body els =>
    unfold renderBlk
    dsimp only
    have hr := ih.evalSrc src st h
    generalize evalSrc env fuel src st = res at hr
    obtain ⟨r, st'⟩ := res
    cases r with
    | ok v =>
      dsimp only
      split
      · split <;> exact hr
      · split
        · rw [oneRes_snd]; exact ih.renderJoined _ _ hr
        · exact hr
      · rename_i _ xs hne heq
        generalize hfs : (Frame.seq { items := xs, mapping := o.mapping, prefix_ := o.prefix_ } ::
            (match src with | .name n => [Frame.dict [(n, seqCacheVal v)]] | .expr _ => [])) = fs
        have hfsc : ∀ f ∈ fs, ConsF f := by
          intro f hf
          rw [← hfs] at hf
          rcases List.mem_cons.mp hf with rfl | hf
          · trivial
          · cases src <;> simp at hf
            subst hf; trivial
        have hl := ih.inLoop { items := xs, mapping := o.mapping, prefix_ := o.prefix_ } o body 0 _ (cons_pushn st' fs hr hfsc)
        generalize inLoop env fuel { items := xs, mapping := o.mapping, prefix_ := o.prefix_ } o body 0
            { st' with stack := fs ++ st'.stack } = res2 at hl ⊢
        obtain ⟨r2, st2⟩ := res2
        have hfin := cons_drop st2 fs.length hl
        cases r2 with
        | ok ps => simp only; split <;> exact hfin
        | raise e => exact hfin
        | ret x => exact hfin
        | oom => exact hfin
    | raise e => exact hr
    | ret v => exact hr
    | oom => exact hr
  | inx_ src o x body els =>
    unfold renderBlk
    dsimp only
    have hr := ih.evalSrc src st h
    generalize evalSrc env fuel src st = res at hr
    obtain ⟨r, st'⟩ := res
    cases r with
    | ok v =>
      dsimp only
      split
      · split <;> exact hr
      · split
        · rw [oneRes_snd]; exact ih.renderJoined _ _ hr
        · exact hr
      · rename_i _ xs hne heq
        have hk := ih.evalSortKey x st' hr
        generalize evalSortKey env fuel x st' = resk at hk ⊢
        obtain ⟨rk, sA⟩ := resk
        have hk : Cons sA := hk
        cases rk with
        | ok key =>
          dsimp only
          have hs := sortPart_cons env o { x with sortKey := key } xs sA hk
          generalize sortPart env o { x with sortKey := key } xs sA = ress at hs ⊢
          obtain ⟨rs, sB⟩ := ress
          have hs : Cons sB := hs
          cases rs with
          | ok sorted =>
            dsimp only
            have ha := ih.evalReverse x sB hs
            generalize evalReverse env fuel x sB = resr at ha ⊢
            obtain ⟨rr, st1⟩ := resr
            have ha : Cons st1 := ha
            cases rr with
            | ok rev =>
              dsimp only
              generalize applyReverse rev sorted = ys
              have hcc := cacheOf_consF src v
              generalize cacheOf src v = cache at hcc ⊢
              cases x.batch with
              | none =>
                dsimp only
                have hl := ih.inLoop { items := ys, mapping := o.mapping, prefix_ := o.prefix_ } o body 0 _
                  (cons_push_seq st1 { items := ys, mapping := o.mapping, prefix_ := o.prefix_ } cache hcc ha)
                generalize inLoop env fuel { items := ys, mapping := o.mapping, prefix_ := o.prefix_ } o body 0
                    { st1 with stack := (Frame.seq { items := ys, mapping := o.mapping, prefix_ := o.prefix_ } :: cache) ++ st1.stack } = res2 at hl ⊢
                obtain ⟨r2, st2⟩ := res2
                have hfin := cons_drop st2 (Frame.seq { items := ys, mapping := o.mapping, prefix_ := o.prefix_ } :: cache).length hl
                cases r2 with
                | ok ps => simp only; split <;> exact hfin
                | raise e => exact hfin
                | ret x => exact hfin
                | oom => exact hfin
              | some bp0 =>
                dsimp only
                have hp := ih.resolveNames x.names bp0 false st1 ha
                generalize resolveNames env fuel x.names bp0 false st1 = resp at hp ⊢
                obtain ⟨rp, sP⟩ := resp
                have hp : Cons sP := hp
                cases rp with
                | ok pb =>
                  obtain ⟨bp, bad⟩ := pb
                  dsimp only
                  split
                  · exact hp
                  · have hq := ih.getitem (txt "QUERY_STRING") true sP hp
                    generalize getitem env fuel (txt "QUERY_STRING") true sP = resq at hq ⊢
                    obtain ⟨rq, st2⟩ := resq
                    have hq : Cons st2 := hq
                    have hb := ih.inBatch (batchInit { items := ys, mapping := o.mapping, prefix_ := o.prefix_ } (bwinOf bp ys.length))
                      o bp (bwinOf bp ys.length) body els cache st2 hcc hq
                    cases rq with
                    | oom => exact hq
                    | ok q => dsimp only; rw [oneRes_snd]; exact hb
                    | raise e => dsimp only; rw [oneRes_snd]; exact hb
                    | ret q => dsimp only; rw [oneRes_snd]; exact hb
                | raise e => exact hp
                | ret v => exact hp
                | oom => exact hp
            | raise e => exact ha
            | ret v => exact ha
            | oom => exact ha
          | raise e => exact hs
          | ret v => exact hs
          | oom => exact hs
        | raise e => exact hk
        | ret v => exact hk
        | oom => exact hk
    | raise e => exact hr
    | ret v => exact hr
    | oom => exact hr

/-- **every interpreter function keeps the attribute caches consistent** -/
theorem all_cons (env : Env) : ∀ fuel, IH env fuel := by
  intro fuel
  induction fuel with
  | zero => exact ih_zero env
  | succ n ih =>
    exact {
      getitem := getitem_step env n ih
      callSub := callSub_step env n ih
      evalExpr := evalExpr_step env n ih
      evalSrc := evalSrc_step env n ih
      fetchVar := fetchVar_step env n ih
      renderBlocks := renderBlocks_step env n ih
      withFrame := withFrame_step env n ih
      renderJoined := renderJoined_step env n ih
      framed := framed_step env n ih
      inIter := inIter_step env n ih
      raiseClass := raiseClass_step env n ih
      renderBlk := renderBlk_step env n ih
      condLoop := condLoop_step env n ih
      inLoop := inLoop_step env n ih
      inLoopB := inLoopB_step env n ih
      inBatch := inBatch_step env n ih
      resolveNames := resolveNames_step env n ih
      evalSortKey := evalSortKey_step env n ih
      evalReverse := evalReverse_step env n ih
      letLoop := letLoop_step env n ih }

end DTML.Lemmas.Cache
