/-
Lemmas for the obligations "the template call of the model is String.__call__ of the source" (Props/C02, Props/C08):
`GenCall.callGen` is regenerated from `String.__call__` on every run (harness/trans_call.py); here it is proved equal to
`Render.topCall` (a new namespace: the order of `callStack`) and `Render.callSub` (the caller's namespace).  No Mathlib.
-/
import DTML.GenCall
namespace DTML.Lemmas.Call
open DTML.Render DTML.GenCall

theorem foldl_push (clients : List Val) : ∀ (cs : CallSt),
    (clients.foldl (fun c ob => (c.push (Frame.inst ob [])).count) cs) =
      ⟨(clients.map (fun v => Frame.inst v [])).reverse ++ cs.stack, cs.level, cs.pushed + clients.length⟩ := by
  induction clients with
  | nil => intro cs; simp
  | cons x xs ih =>
    intro cs
    rw [List.foldl_cons, ih]
    simp only [CallSt.push, CallSt.count, List.map_cons, List.reverse_cons, List.append_assoc, List.singleton_append,
      List.length_cons, CallSt.mk.injEq, true_and]
    omega

/-- what is on the namespace when the blocks are rendered: above the frames present before, the clients (first … last),
the template's variables, the keyword arguments - each only when non-empty -, at level + 1, every one of them counted -/
theorem pushesGen_eq (t : Template) (clients : List Val) (kw : List (Text × Val)) (level : Nat) (cs : CallSt) :
    pushesGen t clients kw level cs =
      ⟨(if kw.isEmpty then [] else [Frame.dict kw]) ++ (if t.vars.isEmpty then [] else [Frame.dict t.vars]) ++
         (clients.map (fun v => Frame.inst v [])).reverse ++ cs.stack,
       level + 1,
       cs.pushed + clients.length + (if t.vars.isEmpty then 0 else 1) + (if kw.isEmpty then 0 else 1)⟩ := by
  unfold pushesGen
  simp only [foldl_push]
  cases hk : kw.isEmpty <;> cases hv : t.vars.isEmpty <;> simp [CallSt.push, CallSt.count]

theorem onCaller_eq (t : Template) (stk : List Frame) (lvl : Nat) :
    onCallerNamespace t ⟨stk, lvl, 0⟩ =
      ⟨(if t.globals.isEmpty then [] else [Frame.dict t.globals]) ++ stk, lvl,
       (if t.globals.isEmpty then ([] : List Frame) else [Frame.dict t.globals]).length⟩ := by
  unfold onCallerNamespace
  cases hg : t.globals.isEmpty <;> simp [CallSt.push, CallSt.count]

theorem onNew_eq (t : Template) (m : List (Text × Val)) :
    onNewNamespace t m ⟨[], 0, 0⟩ =
      ⟨(if m.isEmpty then [] else [Frame.dict m]) ++ (if t.globals.isEmpty then [] else [Frame.dict t.globals]), 0, 0⟩ := by
  unfold onNewNamespace
  cases hg : t.globals.isEmpty <;> cases hm : m.isEmpty <;> simp [CallSt.push]

/-- a template invoked on the caller's namespace (`<dtml-var sub>`, `sub(None, _)`) -/
theorem call_on_caller_namespace (env : Env) (fuel id : Nat) (t : Template) (st : St)
    (ht : env.templates[id]? = some t) :
    callGen env fuel t [] .namespace [] st = callSub env (fuel + 1) id st := by
  obtain ⟨stack, level, trace, calls⟩ := st
  unfold callGen
  simp only [onCaller_eq]
  unfold callBodyGen callSub
  simp only [ht, pushesGen_eq]
  by_cases hl : level > 200
  · simp only [hl, if_true]
    simp
  · simp only [hl, if_false]
    cases hg : t.globals.isEmpty <;> cases hv : t.vars.isEmpty <;>
      simp only [List.isEmpty_nil, if_true, if_false, List.map_nil, List.reverse_nil, List.nil_append, List.append_nil,
        List.length_nil, List.length_cons, Nat.add_zero, Nat.zero_add, Bool.false_eq_true, List.cons_append] <;>
      (cases renderBlocks env fuel t.blocks _ with
       | mk r st2 => cases r <;> rfl)

/-- a top-level call: the namespace built is `callStack` (so `lookup_precedence` speaks about the order of the source),
the blocks are rendered in it at level 1, a dtml-return value is the result -/
theorem call_on_new_namespace (env : Env) (fuel : Nat) (t : Template) (clients : List Val) (m kw : List (Text × Val)) :
    (callGen env fuel t clients (.dict m) kw {}).1 = (topCall env fuel t ⟨clients, m, kw⟩).1 ∧
    (callGen env fuel t clients (.dict m) kw {}).2.trace = (topCall env fuel t ⟨clients, m, kw⟩).2.trace := by
  unfold callGen
  simp only [onNew_eq]
  unfold callBodyGen topCall
  have h0 : ¬ (0 > 200) := by omega
  simp only [h0, if_false, pushesGen_eq]
  have hstack : ((if kw.isEmpty then [] else [Frame.dict kw]) ++ (if t.vars.isEmpty then [] else [Frame.dict t.vars]) ++
         (clients.map (fun v => Frame.inst v [])).reverse ++
         ((if m.isEmpty then [] else [Frame.dict m]) ++ (if t.globals.isEmpty then [] else [Frame.dict t.globals]))) =
      callStack t ⟨clients, m, kw⟩ := by
    cases hk : kw.isEmpty <;> cases hv : t.vars.isEmpty <;> cases hm : m.isEmpty <;> cases hg : t.globals.isEmpty <;>
      simp [callStack, hk, hv, hm, hg]
  simp only [hstack]
  cases renderBlocks env fuel t.blocks { stack := callStack t ⟨clients, m, kw⟩, level := 0 + 1 } with
  | mk r st2 =>
    cases r with
    | ok ps => simp only; cases joinPieces env ps <;> simp
    | raise e => simp
    | ret v => simp
    | oom => simp

end DTML.Lemmas.Call
