/-
Facts about the run-time library of DTML/GenStack.lean (Python's list indexing and slice assignment on ints), as far as
`TemplateDict._pop` uses them.  Only the header of the generated file is referred to here, so this file builds whatever
the translator makes of the source.
-/
import DTML.GenStack
namespace DTML.Lemmas.Stack
open DTML.Render DTML.GenStack

/-- `xs[len(xs) - 1]` is the last element (IndexError on the empty list: `xs[-1]`) -/
theorem pyGet_last {α : Type} (xs : List α) : pyGet xs ((xs.length : Int) - 1) = xs.getLast? := by
  cases xs with
  | nil => simp [pyGet]
  | cons x t =>
    have h1 : ¬ (((x :: t).length : Int) - 1 < 0) := by simp only [List.length_cons]; omega
    have h2 : (((x :: t).length : Int) - 1).toNat = (x :: t).length - 1 := by omega
    simp only [pyGet, h1, if_false, h2, List.getLast?_eq_getElem?]

/-- `xs[len(xs) - k : len(xs)] = []` cuts the last `k` elements off, for `k ≤ len(xs)` -/
theorem pySliceSet_cut {α : Type} (xs : List α) (k : Nat) (hk : k ≤ xs.length) :
    pySliceSet xs (some ((xs.length : Int) - (k : Int))) (some (xs.length : Int)) [] = xs.take (xs.length - k) := by
  have h1 : ¬ ((xs.length : Int) - (k : Int) < 0) := by omega
  have h2 : ¬ ((xs.length : Int) - (k : Int) > (xs.length : Int)) := by omega
  have h3 : ((xs.length : Int) - (k : Int)).toNat = xs.length - k := by omega
  have h4 : ¬ ((xs.length : Int) < 0) := by omega
  have h5 : ¬ (xs.length < xs.length - k) := by omega
  simp [pySliceSet, pyClip, h1, h2, h3, h4, h5]

/-- ... which is `drop k` on the model's stack (top first) -/
theorem reverse_take_sub {α : Type} (xs : List α) (k : Nat) : (xs.take (xs.length - k)).reverse = xs.reverse.drop k := by
  rw [List.drop_reverse]

/-- past the size of the namespace `_pop` is NOT `drop`: Python wraps the negative lower bound of the slice round -/
example : pySliceSet [1, 2, 3] (some ((3 : Int) - 4)) (some 3) [] = [1, 2] := by decide

end DTML.Lemmas.Stack
