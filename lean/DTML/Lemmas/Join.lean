/-
Lemmas about the run-time library of DTML/GenJoin.lean (the fixed part of the generated file: `pyJoin`, `forRange`,
`pyDecode`, …), used by the obligations `gen_join_unicode_is_model` / `gen_render_blocks_is_model` of Props/C19.
Nothing here mentions the generated definitions, so a change of the source breaks the obligations, not this file.
-/
import DTML.GenJoin
set_option linter.unusedVariables false
namespace DTML.Lemmas.Join
open DTML.Render DTML.GenJoin

/-- the `encoding` argument of `render_blocks` / `join_unicode` stands for the template encoding of the model:
`None` is Latin-1 (the model's `utf8 = false`), a name is looked up as Python's codec registry does -/
def encodingIs (env : Env) (encoding : Option Text) : Prop :=
  match encoding with
  | none => env.utf8 = false
  | some e => codec e = some env.utf8

instance (env : Env) (encoding : Option Text) : Decidable (encodingIs env encoding) := by
  unfold encodingIs; cases encoding <;> exact inferInstance

/-- an encoding name that is there (after `if encoding is None: encoding = …`) and means the template encoding -/
def resolved (env : Env) (encoding : Option Text) : Prop := ∃ e, encoding = some e ∧ codec e = some env.utf8

theorem decodeBytes_utf8 (env : Env) (b : List Nat) : decodeBytes { utf8 := env.utf8 } b = decodeBytes env b := by
  unfold decodeBytes; rfl

/-- the texts of the pieces, bytes decoded with the template encoding -/
def decodedTexts (env : Env) : List Piece → Option (List Text)
  | [] => some []
  | .text s :: t => (decodedTexts env t).map (s :: ·)
  | .bytes b :: t =>
    match decodeBytes env b, decodedTexts env t with
    | some s, some r => some (s :: r)
    | _, _ => none

theorem decodeAll_eq (env : Env) (ps : List Piece) : decodeAll env ps = (decodedTexts env ps).map List.flatten := by
  induction ps with
  | nil => rfl
  | cons p t ih =>
    cases p with
    | text s =>
      simp only [decodeAll, decodedTexts, ih]
      cases decodedTexts env t <;> simp
    | bytes b =>
      simp only [decodeAll, decodedTexts, ih]
      cases decodeBytes env b <;> cases decodedTexts env t <;> simp

theorem joinTexts_nil (ts : List Text) : joinTexts [] ts = ts.flatten := by
  fun_induction joinTexts [] ts with
  | case1 => rfl
  | case2 a => simp
  | case3 a b t ih => rw [ih]; simp

theorem allText_texts (ts : List Text) : allText (ts.map Piece.text) = some ts := by
  induction ts with
  | nil => rfl
  | cons a t ih => simp [allText, ih]

/-- a list `''.join` accepts holds text only: nothing is decoded -/
theorem allText_decoded (env : Env) (ps : List Piece) (ts : List Text) (h : allText ps = some ts) :
    decodedTexts env ps = some ts := by
  induction ps generalizing ts with
  | nil => simp only [allText, Option.some.injEq] at h; subst h; rfl
  | cons p t ih =>
    cases p with
    | text s =>
      simp only [allText] at h
      cases ht : allText t with
      | none => rw [ht] at h; cases h
      | some r =>
        rw [ht] at h
        simp only [Option.map_some, Option.some.injEq] at h
        subst h
        simp only [decodedTexts, ih r ht, Option.map_some]
    | bytes b => simp only [allText] at h; cases h

/-- `x.decode(encoding)` under `isinstance(x, bytes)`, or `x` as it is -/
def decodeOne (env : Env) (x : Piece) : Res Piece :=
  match x with
  | .text s => .ok (.text s)
  | .bytes b =>
    match decodeBytes env b with
    | some s => .ok (.text s)
    | none => .raise ⟨"UnicodeDecodeError".toList, []⟩

/-- what one round of the fix-up loop has to do with the element at the index -/
def BodySpec (env : Env) (body : List Piece → Nat → Res (List Piece)) : Prop :=
  ∀ (pre : List Piece) (x : Piece) (suf : List Piece),
    body (pre ++ x :: suf) pre.length = bindR (decodeOne env x) fun y => .ok (pre ++ y :: suf)

theorem forRange_spec (env : Env) (body : List Piece → Nat → Res (List Piece)) (hb : BodySpec env body) :
    ∀ (suf pre : List Piece),
      forRange body (List.range' pre.length suf.length) (pre ++ suf) =
        match decodedTexts env suf with
        | some ts => .ok (pre ++ ts.map Piece.text)
        | none => .raise ⟨"UnicodeDecodeError".toList, []⟩ := by
  intro suf
  induction suf with
  | nil => intro pre; simp [forRange, decodedTexts]
  | cons x suf ih =>
    intro pre
    have hlen : (pre ++ [x]).length = pre.length + 1 := by simp
    have happ : ∀ y : Piece, pre ++ y :: suf = (pre ++ [y]) ++ suf := by intro y; simp
    simp only [List.length_cons, List.range'_succ, forRange, hb pre x suf]
    cases x with
    | text s =>
      have := ih (pre ++ [.text s])
      simp only [List.length_append, List.length_singleton, List.append_assoc, List.singleton_append] at this
      simp only [decodeOne, bindR, decodedTexts, this]
      cases decodedTexts env suf <;> simp
    | bytes b =>
      cases hd : decodeBytes env b with
      | none => simp only [decodeOne, hd, bindR, decodedTexts]
      | some s =>
        have := ih (pre ++ [.text s])
        simp only [List.length_append, List.length_singleton, List.append_assoc, List.singleton_append] at this
        simp only [decodeOne, hd, bindR, decodedTexts, this]
        cases decodedTexts env suf <;> simp

/-- the whole fix-up loop followed by the second `''.join`: `joinUnicode` of the model -/
theorem fixup_then_join (env : Env) (body : List Piece → Nat → Res (List Piece)) (hb : BodySpec env body)
    (ps : List Piece) :
    (bindR (forRange body (List.range ps.length) ps) fun r => pyJoin [] r) = joinUnicode env ps := by
  have h := forRange_spec env body hb ps []
  simp only [List.length_nil, List.nil_append] at h
  rw [List.range_eq_range', h]
  unfold joinUnicode
  rw [decodeAll_eq]
  cases decodedTexts env ps with
  | none => rfl
  | some ts => simp only [bindR, pyJoin, allText_texts, joinTexts_nil, Option.map_some]

/-- the first `''.join` when it succeeds: the same text as the model's -/
theorem join_texts_is_model (env : Env) (ps : List Piece) (ts : List Text) (h : allText ps = some ts) :
    joinUnicode env ps = .ok (.text (joinTexts [] ts)) := by
  unfold joinUnicode
  rw [decodeAll_eq, allText_decoded env ps ts h, joinTexts_nil]
  rfl

theorem joinUnicode_total (env : Env) (ps : List Piece) :
    (∃ p, joinUnicode env ps = .ok p) ∨ (∃ e, joinUnicode env ps = .raise e) := by
  unfold joinUnicode
  cases decodeAll env ps with
  | some s => exact .inl ⟨_, rfl⟩
  | none => exact .inr ⟨_, rfl⟩

end DTML.Lemmas.Join
