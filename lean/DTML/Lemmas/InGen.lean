/- Lemmas for the obligations `gen_in_*` of Props/C10: the loop of `InClass.renderwob` as translated from the source
   (GenIn.lean) against the interpreter's `inLoop`. -/
import DTML.Render
import DTML.GenIn
namespace DTML.Lemmas.InGen
open DTML.Render DTML.GenIn

/-- what the loop stores under `sequence-start` (and, past the last element, `sequence-end`) is not read by the loop itself:
the interpreter recomputes the flag of element `i` from the refusals before it -/
theorem inLoop_flags_irrel (env : Env) (o : InOpts) (body : List Blk) : ∀ (fuel : Nat) (sv : SeqVars) (b e : Bool) (i : Nat) (st : St),
    (e = sv.ended ∨ i ≥ sv.items.length) →
    inLoop env fuel { sv with started := b, ended := e } o body i st = inLoop env fuel sv o body i st := by
  intro fuel
  induction fuel with
  | zero => intro sv b e i st _; simp [inLoop]
  | succ f ih =>
    intro sv b e i st h
    rcases Nat.lt_or_ge i sv.items.length with hi | hi
    · have he : e = sv.ended := by
        rcases h with h | h
        · exact h
        · omega
      subst he
      unfold inLoop
      simp only [show ¬ (i ≥ sv.items.length) from by omega, if_false]
      have hd : itemDenied env { sv with started := b, ended := sv.ended } i = itemDenied env sv i := rfl
      rw [hd]
      by_cases hden : itemDenied env sv i = true
      · simp only [hden, if_true]
        by_cases hsk : o.skipUnauth = true
        · simp only [hsk, if_true]
          exact ih sv b sv.ended (i + 1) _ (Or.inl rfl)
        · simp [hsk]
      · simp only [hden]
        rfl
    · unfold inLoop
      simp [hi]

theorem renderPushed_eq (env : Env) (fuel : Nat) (fr : Frame) (body : List Blk) (st : St) :
    renderPushed env fuel fr body 1 st = framed env fuel fr body st := by
  cases fuel with
  | zero => simp [renderPushed, framed]
  | succ f =>
    cases f with
    | zero => simp [renderPushed, framed, withFrame, joinRes]
    | succ g => simp [renderPushed, framed, withFrame]

/-- the tuple convention and the choice of what is pushed, read off the source, are the interpreter's `inIter` -/
theorem renderItem_eq_inIter (env : Env) (fuel : Nat) (o : InOpts) (body : List Blk) (sv : SeqVars) (i : Nat) (x : Val) (st : St)
    (hx : sv.items[i]? = some x) :
    let t := typeOf x
    let client := if t = PyType.tuple ∧ valLen x = 2 then valAt x 1 else x
    let pf : Nat × Option Frame :=
      if o.noPush then (0, none)
      else if o.mapping then (1, some (mappingFrame client))
      else if inStringTypes t then (0, none)
      else (1, some (Frame.inst client []))
    renderItemGen env fuel pf.2 body (if pf.1 ≠ 0 then 1 else 0) st = inIter env fuel sv o body i st := by
  intro t client pf
  cases fuel with
  | zero => simp [renderItemGen, inIter]
  | succ f =>
    unfold inIter
    simp only [pf, client, t, seqItem, hx]
    cases x with
    | tuple xs =>
      match xs with
      | [] => by_cases h1 : o.noPush = true <;> by_cases h2 : o.mapping = true <;>
          simp [h1, h2, typeOf, valLen, inStringTypes, mappingFrame, renderItemGen, renderPushed_eq]
      | [_] => by_cases h1 : o.noPush = true <;> by_cases h2 : o.mapping = true <;>
          simp [h1, h2, typeOf, valLen, inStringTypes, mappingFrame, renderItemGen, renderPushed_eq]
      | [_, b] => by_cases h1 : o.noPush = true <;> by_cases h2 : o.mapping = true <;>
          simp [h1, h2, typeOf, valLen, valAt, inStringTypes, renderItemGen, renderPushed_eq] <;>
          cases b <;> simp [mappingFrame]
      | _ :: _ :: _ :: _ => by_cases h1 : o.noPush = true <;> by_cases h2 : o.mapping = true <;>
          simp [h1, h2, typeOf, valLen, inStringTypes, mappingFrame, renderItemGen, renderPushed_eq]
    | _ => by_cases h1 : o.noPush = true <;> by_cases h2 : o.mapping = true <;>
          simp [h1, h2, typeOf, valLen, inStringTypes, mappingFrame, renderItemGen, renderPushed_eq]

/-- the two flag stores of a pass, as one update of the variables -/
theorem flags_form (sv : SeqVars) (c1 c2 : Prop) [Decidable c1] [Decidable c2] :
    (if c2 then { (if c1 then { sv with ended := true } else sv) with started := false }
      else (if c1 then { sv with ended := true } else sv)) =
    { sv with started := (if c2 then false else sv.started), ended := (if c1 then true else sv.ended) } := by
  by_cases h1 : c1 <;> by_cases h2 : c2 <;> simp only [h1, h2, if_true, if_false] <;> rfl

/-- the statements of a pass after the element is fetched = the interpreter's `inIter` on the updated variables -/
theorem inItemGen_spec (env : Env) (fuel : Nat) (o : InOpts) (body : List Blk) (sv : SeqVars) (i : Nat) (x : Val) (st : St)
    (hx : sv.items[i]? = some x) :
    inItemGen env fuel o body sv i x st =
      (match inIter env fuel { sv with index := i } o body i (syncVars { sv with index := i } st) with
       | (.ok p, st2) => .item p (if (i : Int) = 0 then { sv with index := i, started := false } else { sv with index := i }) st2
       | (.raise e, st2) => .stop (.raise e) st2
       | (.ret v, st2) => .stop (.ret v) st2
       | (.oom, st2) => .stop .oom st2) := by
  have h := renderItem_eq_inIter env fuel o body { sv with index := i } i x (syncVars { sv with index := i } st) hx
  simp only at h
  unfold inItemGen
  simp only [h]
  rfl

/-- a pass whose element the item guard refuses -/
theorem inStepGen_denied (env : Env) (fuel : Nat) (o : InOpts) (body : List Blk) (sv : SeqVars) (i : Nat) (st : St)
    (hd : itemDenied env sv i = true) :
    inStepGen env fuel o body sv i st =
      (if o.skipUnauth then
        .skip { sv with started := (if (i : Int) = 1 then false else sv.started),
                        ended := (if (i : Int) = (sv.items.length : Int) - 1 then true else sv.ended) }
          { st with trace := st.trace ++ [.gitem 0 i] }
       else .stop (.raise itemError) { st with trace := st.trace ++ [.gitem 0 i] }) := by
  have hg : env.guardOn = true := by
    simp only [itemDenied, Bool.and_eq_true] at hd
    exact hd.1
  have hd' : itemDenied env (if (i : Int) = (sv.items.length : Int) - 1 then { sv with ended := true } else sv) i = true := by
    by_cases h : (i : Int) = (sv.items.length : Int) - 1
    · simp only [h, if_true]; exact hd
    · simp only [h, if_false]; exact hd
  unfold inStepGen
  simp only [hg, if_true, guardedGetitem, hd']
  by_cases hsk : o.skipUnauth = true
  · simp only [hsk, if_true, flags_form]
  · simp [hsk]

/-- a pass whose element is handed out -/
theorem inStepGen_ok (env : Env) (fuel : Nat) (o : InOpts) (body : List Blk) (sv : SeqVars) (i : Nat) (st : St)
    (hd : itemDenied env sv i = false) :
    inStepGen env fuel o body sv i st =
      inItemGen env fuel o body { sv with ended := (if (i : Int) = (sv.items.length : Int) - 1 then true else sv.ended) } i
        (seqGetitem sv i) (if env.guardOn then { st with trace := st.trace ++ [.gitem 0 i] } else st) := by
  have hd' : itemDenied env (if (i : Int) = (sv.items.length : Int) - 1 then { sv with ended := true } else sv) i = false := by
    by_cases h : (i : Int) = (sv.items.length : Int) - 1
    · simp only [h, if_true]; exact hd
    · simp only [h, if_false]; exact hd
  have hsv : (if (i : Int) = (sv.items.length : Int) - 1 then { sv with ended := true } else sv) =
      { sv with ended := (if (i : Int) = (sv.items.length : Int) - 1 then true else sv.ended) } := by
    by_cases h : (i : Int) = (sv.items.length : Int) - 1 <;> simp only [h, if_true, if_false] <;> rfl
  have hd2 : itemDenied env { sv with ended := (if (i : Int) = (sv.items.length : Int) - 1 then true else sv.ended) } i = false := hd
  unfold inStepGen
  by_cases hg : env.guardOn = true
  · simp only [hg, if_true, guardedGetitem, hsv, hd2]
    rfl
  · simp only [hg, hsv]
    rfl

theorem getElem?_of_lt (sv : SeqVars) (i : Nat) (hi : i < sv.items.length) : sv.items[i]? = some (seqGetitem sv i) := by
  simp [seqGetitem, List.getElem?_eq_getElem hi]

theorem step_tail (env : Env) (fuel : Nat) (o : InOpts) (body : List Blk) (svN : SeqVars) (i : Nat) (r : Res Piece × St) :
    (match r with
      | (.ok p, st2) =>
        (match inLoop env fuel svN o body (i + 1) st2 with
         | (.ok ps, st3) => (.ok (p :: ps), st3)
         | r => r)
      | (.raise e, st2) => (.raise e, st2)
      | (.ret v, st2) => (.ret v, st2)
      | (.oom, st2) => (.oom, st2)) =
    inCont (match r with
      | (.ok p, st2) => Step.item p (if (i : Int) = 0 then { svN with started := false } else svN) st2
      | (.raise e, st2) => .stop (.raise e) st2
      | (.ret v, st2) => .stop (.ret v) st2
      | (.oom, st2) => .stop .oom st2) (fun sv' st' => inLoop env fuel sv' o body (i + 1) st') := by
  rcases r with ⟨r, st2⟩
  cases r with
  | ok p =>
    simp only [inCont]
    by_cases h0 : (i : Int) = 0
    · simp only [h0, if_true]
      have := inLoop_flags_irrel env o body fuel svN false svN.ended (i + 1) st2 (Or.inl rfl)
      rw [this]
      rfl
    · simp only [h0, if_false]
      rfl
  | raise e => simp only [inCont]
  | ret v => simp only [inCont]
  | oom => simp only [inCont]

theorem in_step_eq (env : Env) (fuel : Nat) (o : InOpts) (body : List Blk) (sv : SeqVars) (i : Nat) (st : St)
    (hi : i < sv.items.length) (hs : sv.started = startedAt env o sv i) :
    inLoop env (fuel + 1) sv o body i st =
      inCont (inStepGen env fuel o body sv i st) (fun sv' st' => inLoop env fuel sv' o body (i + 1) st') := by
  rw [inLoop]
  simp only [show ¬ (i ≥ sv.items.length) from by omega, if_false]
  by_cases hden : itemDenied env sv i = true
  · have hg : env.guardOn = true := by
      simp only [itemDenied, Bool.and_eq_true] at hden
      exact hden.1
    rw [inStepGen_denied env fuel o body sv i st hden]
    simp only [hden, hg, if_true]
    by_cases hsk : o.skipUnauth = true
    · simp only [hsk, if_true, inCont]
      symm
      apply inLoop_flags_irrel
      by_cases h : (i : Int) = (sv.items.length : Int) - 1
      · right; show i + 1 ≥ sv.items.length; omega
      · left; simp only [h, if_false]
    · simp only [hsk, inCont]
      rfl
  · have hden' : itemDenied env sv i = false := by simpa using hden
    rw [inStepGen_ok env fuel o body sv i st hden']
    have hx : ({ sv with ended := (if (i : Int) = (sv.items.length : Int) - 1 then true else sv.ended) } : SeqVars).items[i]? =
        some (seqGetitem sv i) := getElem?_of_lt sv i hi
    rw [inItemGen_spec env fuel o body _ i _ _ hx]
    have hsv : ({ sv with index := i, ended := sv.ended || i + 1 == sv.items.length, started := startedAt env o sv i } : SeqVars) =
        { sv with index := i, ended := (if (i : Int) = (sv.items.length : Int) - 1 then true else sv.ended) } := by
      rw [← hs]
      by_cases h : (i : Int) = (sv.items.length : Int) - 1
      · have h' : (i + 1 == sv.items.length) = true := by simp; omega
        simp only [h, h', if_true, Bool.or_true]
      · have h' : (i + 1 == sv.items.length) = false := by simp; omega
        simp only [h, h', if_false, Bool.or_false]
    simp only [hden', hsv]
    generalize (if env.guardOn = true then ({ st with trace := st.trace ++ [Event.gitem 0 (i : Int)] } : St) else st) = stG
    generalize hN : ({ sv with index := i, ended := (if (i : Int) = (sv.items.length : Int) - 1 then true else sv.ended) } : SeqVars) = svN
    have hf : ({ sv with index := i, started := false, ended := (if (i : Int) = (sv.items.length : Int) - 1 then true else sv.ended) } : SeqVars) = { svN with started := false } := by
      rw [← hN]
    simp only [Bool.false_eq_true, if_false, hf]
    exact step_tail env fuel o body svN i (inIter env fuel svN o body i (syncVars svN stG))

/-- the stateful `sequence-start` of the source against the interpreter's closed form: after a refused element that is skipped -/
theorem startedAt_succ_skip (env : Env) (o : InOpts) (sv : SeqVars) (i : Nat) (hd : itemDenied env sv i = true)
    (hsk : o.skipUnauth = true) :
    startedAt env o sv (i + 1) = (if (i : Int) = 1 then false else startedAt env o sv i) := by
  match i with
  | 0 => simp [startedAt, hd, hsk]
  | 1 => simp [startedAt, hd, hsk]
  | n + 2 =>
    simp only [startedAt]
    have h : ¬ ((n : Int) + 2 = 1) := by omega
    simp [h]

/-- … and after a rendered element -/
theorem startedAt_succ_item (env : Env) (o : InOpts) (sv : SeqVars) (i : Nat) (hd : itemDenied env sv i = false) :
    startedAt env o sv (i + 1) = (if (i : Int) = 0 then false else startedAt env o sv i) := by
  match i with
  | 0 => simp [startedAt, hd]
  | 1 => simp [startedAt, hd]
  | n + 2 =>
    simp only [startedAt]
    have h : ¬ ((n : Int) + 2 = 0) := by omega
    simp [h]

/-- the variables a pass hands on to the next one -/
def stepVars : Step → Option SeqVars
  | .skip sv _ => some sv
  | .item _ sv _ => some sv
  | .stop _ _ => none

theorem inCont_congr (s : Step) (k1 k2 : SeqVars → St → Res (List Piece) × St)
    (h : ∀ sv', stepVars s = some sv' → ∀ st', k1 sv' st' = k2 sv' st') : inCont s k1 = inCont s k2 := by
  cases s with
  | skip sv st => simp only [inCont]; exact h sv rfl st
  | item p sv st => simp only [inCont]; rw [h sv rfl st]
  | stop r st => rfl

/-- what a pass hands on: the same sequence, and `sequence-start` as the interpreter computes it for the next element -/
theorem step_keeps (env : Env) (fuel : Nat) (o : InOpts) (body : List Blk) (sv : SeqVars) (i : Nat) (st : St)
    (hi : i < sv.items.length) (hs : sv.started = startedAt env o sv i) (sv' : SeqVars)
    (h : stepVars (inStepGen env fuel o body sv i st) = some sv') :
    sv'.items = sv.items ∧ sv'.started = startedAt env o sv' (i + 1) := by
  by_cases hden : itemDenied env sv i = true
  · rw [inStepGen_denied env fuel o body sv i st hden] at h
    by_cases hsk : o.skipUnauth = true
    · simp only [hsk, if_true, stepVars, Option.some.injEq] at h
      subst h
      refine ⟨rfl, ?_⟩
      show (if (i : Int) = 1 then false else sv.started) = startedAt env o sv (i + 1)
      rw [startedAt_succ_skip env o sv i hden hsk, hs]
    · simp [hsk, stepVars] at h
  · have hden' : itemDenied env sv i = false := by simpa using hden
    have hx : ({ sv with ended := (if (i : Int) = (sv.items.length : Int) - 1 then true else sv.ended) } : SeqVars).items[i]? =
        some (seqGetitem sv i) := getElem?_of_lt sv i hi
    rw [inStepGen_ok env fuel o body sv i st hden', inItemGen_spec env fuel o body _ i _ _ hx] at h
    revert h
    generalize inIter env fuel _ o body i _ = r
    rcases r with ⟨r, st2⟩
    cases r with
    | ok p =>
      simp only [stepVars, Option.some.injEq]
      intro h
      subst h
      by_cases h0 : (i : Int) = 0
      · simp only [h0, if_true]
        refine ⟨trivial, ?_⟩
        show false = startedAt env o sv (i + 1)
        rw [startedAt_succ_item env o sv i hden']
        simp only [h0, if_true]
      · simp only [h0, if_false]
        refine ⟨trivial, ?_⟩
        show sv.started = startedAt env o sv (i + 1)
        rw [startedAt_succ_item env o sv i hden', hs]
        simp only [h0, if_false]
    | raise e => simp [stepVars]
    | ret v => simp [stepVars]
    | oom => simp [stepVars]

theorem in_loop_eq (env : Env) (o : InOpts) (body : List Blk) : ∀ (fuel : Nat) (sv : SeqVars) (i : Nat) (st : St),
    sv.started = startedAt env o sv i →
    inLoopGen env fuel o body sv i st = inLoop env fuel sv o body i st := by
  intro fuel
  induction fuel with
  | zero => intro sv i st _; simp [inLoopGen, inLoop]
  | succ f ih =>
    intro sv i st hs
    rcases Nat.lt_or_ge i sv.items.length with hi | hi
    · rw [in_step_eq env f o body sv i st hi hs, inLoopGen]
      simp only [show ((i : Int) < (sv.items.length : Int)) from by omega, if_true]
      apply inCont_congr
      intro sv' h st'
      have hk := step_keeps env f o body sv i st hi hs sv' h
      exact ih sv' (i + 1) st' hk.2
    · rw [inLoopGen, inLoop]
      simp only [show ¬ ((i : Int) < (sv.items.length : Int)) from by omega, if_false, hi, if_true]

/-! ### the batched loop (`renderwb`) -/

/-- what a pass of the batched loop stores before the element is fetched (the presets, the previous- / next-sequence
information on the first / last displayed element, `sequence-end`) is the interpreter's `batchStep` -/
theorem batchPre_eq (sv : SeqVars) (w : BWin) (i : Nat) : inBatchPreGen sv w i = batchStep sv w i := by
  have e1 : ((i : Int) = (w.first : Int)) ↔ i = w.first := by omega
  have e2 : ((i : Int) = (w.stop : Int) - 1) ↔ i + 1 = w.stop := by omega
  have e3 : ((w.first : Int) > 0) ↔ w.first > 0 := by omega
  have e4 : ∀ n : Nat, (-(n : Int) ≤ (w.stop : Int) ∧ (w.stop : Int) < (n : Int)) ↔ w.stop < n := by
    intro n; omega
  simp only [inBatchPreGen, batchStep, batchInfo, prevInfo, nextInfo, moreAfter, seqHas, e1, e2, e3, e4]
  by_cases h1 : i = w.first <;> by_cases h2 : i + 1 = w.stop <;> by_cases h3 : w.first > 0 <;> simp [h1, h2, h3]

theorem afterItem_eq (sv : SeqVars) (w : BWin) (i : Nat) :
    (if (i : Int) = (w.first : Int) then { sv with started := false } else sv) = afterItem sv w i := by
  have e1 : ((i : Int) = (w.first : Int)) ↔ i = w.first := by omega
  simp only [afterItem, e1, beq_iff_eq]

/-- the statements of a batched pass after the element is fetched = `inIter` on the updated variables, then `afterItem` -/
theorem afterItem_eq2 (sv : SeqVars) (w : BWin) (i j : Nat) :
    (if (i : Int) = (w.first : Int) then { sv with index := j, started := false } else { sv with index := j }) =
      afterItem { sv with index := j } w i := afterItem_eq { sv with index := j } w i

theorem inBatchItemGen_spec (env : Env) (fuel : Nat) (o : InOpts) (w : BWin) (body : List Blk) (sv : SeqVars) (i : Nat) (x : Val)
    (st : St) (hx : sv.items[i]? = some x) :
    inBatchItemGen env fuel o w body sv i x st =
      (match inIter env fuel { sv with index := i } o body i (syncVars { sv with index := i } st) with
       | (.ok p, st2) => .item p (afterItem { sv with index := i } w i) st2
       | (.raise e, st2) => .stop (.raise e) st2
       | (.ret v, st2) => .stop (.ret v) st2
       | (.oom, st2) => .stop .oom st2) := by
  have h := renderItem_eq_inIter env fuel o body { sv with index := i } i x (syncVars { sv with index := i } st) hx
  simp only at h
  unfold inBatchItemGen
  simp only [h, ← afterItem_eq2]
  rfl

theorem batch_tail (env : Env) (fuel : Nat) (o : InOpts) (w : BWin) (body : List Blk) (svN : SeqVars) (i : Nat) (r : Res Piece × St) :
    (match r with
      | (.ok p, st2) =>
        (match inLoopB env fuel (afterItem svN w i) o w body (i + 1) st2 with
         | (.ok ps, st3) => (.ok (p :: ps), st3)
         | r => r)
      | (.raise e, st2) => (.raise e, st2)
      | (.ret v, st2) => (.ret v, st2)
      | (.oom, st2) => (.oom, st2)) =
    inCont (match r with
      | (.ok p, st2) => Step.item p (afterItem svN w i) st2
      | (.raise e, st2) => .stop (.raise e) st2
      | (.ret v, st2) => .stop (.ret v) st2
      | (.oom, st2) => .stop .oom st2) (fun sv' st' => inLoopB env fuel sv' o w body (i + 1) st') := by
  rcases r with ⟨r, st2⟩
  cases r <;> simp only [inCont] <;> rfl

/-- one pass of the batched loop is one unfolding of `inLoopB` -/
theorem in_batch_step_eq (env : Env) (fuel : Nat) (o : InOpts) (w : BWin) (body : List Blk) (sv : SeqVars) (i : Nat) (st : St)
    (hw : i < w.stop) (hi : i < (batchStep sv w i).items.length) :
    inLoopB env (fuel + 1) sv o w body i st =
      inCont (inBatchStepGen env fuel o w body sv i st) (fun sv' st' => inLoopB env fuel sv' o w body (i + 1) st') := by
  rw [inLoopB]
  simp only [show ¬ (i ≥ w.stop) from by omega, if_false]
  unfold inBatchStepGen
  simp only [batchPre_eq]
  generalize batchStep sv w i = sv1 at hi ⊢
  have hx : sv1.items[i]? = some (seqGetitem sv1 i) := getElem?_of_lt sv1 i hi
  by_cases hden : itemDenied env sv1 i = true
  · have hg : env.guardOn = true := by
      simp only [itemDenied, Bool.and_eq_true] at hden
      exact hden.1
    simp only [hg, hden, if_true, guardedGetitem, afterItem_eq]
    by_cases hsk : o.skipUnauth = true
    · simp only [hsk, if_true, inCont]
    · simp only [hsk, inCont]
      rfl
  · have hden' : itemDenied env sv1 i = false := by simpa using hden
    by_cases hg : env.guardOn = true
    · simp only [hg, hden', if_true, guardedGetitem, Bool.false_eq_true, if_false]
      rw [inBatchItemGen_spec env fuel o w body sv1 i _ _ hx]
      exact batch_tail env fuel o w body { sv1 with index := i } i _
    · simp only [hg, hden', Bool.false_eq_true, if_false]
      rw [inBatchItemGen_spec env fuel o w body sv1 i _ _ hx]
      exact batch_tail env fuel o w body { sv1 with index := i } i _

/-- the variables a batched pass hands on hold the same sequence -/
theorem batch_step_items (env : Env) (fuel : Nat) (o : InOpts) (w : BWin) (body : List Blk) (sv : SeqVars) (i : Nat) (st : St)
    (hi : i < (batchStep sv w i).items.length) (sv' : SeqVars)
    (h : stepVars (inBatchStepGen env fuel o w body sv i st) = some sv') : sv'.items = (batchStep sv w i).items := by
  unfold inBatchStepGen at h
  simp only [batchPre_eq] at h
  generalize batchStep sv w i = sv1 at hi h ⊢
  have hx : sv1.items[i]? = some (seqGetitem sv1 i) := getElem?_of_lt sv1 i hi
  have key : ∀ (x : Val) (st0 : St), stepVars (inBatchItemGen env fuel o w body sv1 i (seqGetitem sv1 i) st0) = some sv' →
      sv'.items = sv1.items := by
    intro _ st0
    rw [inBatchItemGen_spec env fuel o w body sv1 i _ _ hx]
    generalize inIter env fuel _ o body i _ = r
    rcases r with ⟨r, st2⟩
    cases r with
    | ok p =>
      simp only [stepVars, Option.some.injEq]
      intro h; subst h
      simp only [afterItem]; split <;> rfl
    | raise e => simp [stepVars]
    | ret v => simp [stepVars]
    | oom => simp [stepVars]
  by_cases hg : env.guardOn = true
  · by_cases hden : itemDenied env sv1 i = true
    · simp only [hg, hden, if_true, guardedGetitem, afterItem_eq] at h
      by_cases hsk : o.skipUnauth = true
      · simp only [hsk, if_true, stepVars, Option.some.injEq] at h
        subst h
        simp only [afterItem]; split <;> rfl
      · simp [hsk, stepVars] at h
    · have hden' : itemDenied env sv1 i = false := by simpa using hden
      simp only [hg, hden', if_true, guardedGetitem, Bool.false_eq_true, if_false] at h
      exact key .none _ h
  · simp only [hg, Bool.false_eq_true, if_false] at h
    exact key .none _ h

end DTML.Lemmas.InGen
