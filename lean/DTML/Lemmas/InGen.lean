/- Lemmas for the obligations `gen_in_*` of Props/C10: the loop of `InClass.renderwob` as translated from the source
   (GenIn.lean) against the interpreter's `inLoop`. -/
import DTML.Render
import DTML.GenIn
namespace DTML.Lemmas.InGen
open DTML.Render DTML.GenIn

/-- what the loop stores under `sequence-start` (and, past the last element, `sequence-end`) is not read by the loop itself:
the interpreter recomputes the flag of element `i` from the refusals before it -/
theorem inLoop_flags_irrel (env : Env) (o : InOpts) (body : List Blk) : ∀ (fuel : Nat) (sv : SeqVars) (b e : Bool) (i : Nat) (st : St),
    (e = sv.ended ∨ i ≥ sv.items.length) →
    inLoop env fuel { sv with started := b, ended := e } o body i st = inLoop env fuel sv o body i st := by
  intro fuel
  induction fuel with
  | zero => intro sv b e i st _; simp [inLoop]
  | succ f ih =>
    intro sv b e i st h
    rcases Nat.lt_or_ge i sv.items.length with hi | hi
    · have he : e = sv.ended := by
        rcases h with h | h
        · exact h
        · omega
      subst he
      unfold inLoop
      simp only [show ¬ (i ≥ sv.items.length) from by omega, if_false]
      have hd : itemDenied env { sv with started := b, ended := sv.ended } i = itemDenied env sv i := rfl
      rw [hd]
      by_cases hden : itemDenied env sv i = true
      · simp only [hden, if_true]
        by_cases hsk : o.skipUnauth = true
        · simp only [hsk, if_true]
          exact ih sv b sv.ended (i + 1) _ (Or.inl rfl)
        · simp [hsk]
      · simp only [hden]
        rfl
    · unfold inLoop
      simp [hi]

theorem renderPushed_eq (env : Env) (fuel : Nat) (fr : Frame) (body : List Blk) (st : St) :
    renderPushed env fuel fr body 1 st = framed env fuel fr body st := by
  cases fuel with
  | zero => simp [renderPushed, framed]
  | succ f =>
    cases f with
    | zero => simp [renderPushed, framed, withFrame, joinRes]
    | succ g => simp [renderPushed, framed, withFrame]

/-- the tuple convention and the choice of what is pushed, read off the source, are the interpreter's `inIter` -/
theorem renderItem_eq_inIter (env : Env) (fuel : Nat) (o : InOpts) (body : List Blk) (sv : SeqVars) (i : Nat) (x : Val) (st : St)
    (hx : sv.items[i]? = some x) :
    let t := typeOf x
    let client := if t = PyType.tuple ∧ valLen x = 2 then valAt x 1 else x
    let pf : Nat × Option Frame :=
      if o.noPush then (0, none)
      else if o.mapping then (1, some (mappingFrame client))
      else if inStringTypes t then (0, none)
      else (1, some (Frame.inst client []))
    renderItemGen env fuel pf.2 body (if pf.1 ≠ 0 then 1 else 0) st = inIter env fuel sv o body i st := by
  intro t client pf
  cases fuel with
  | zero => simp [renderItemGen, inIter]
  | succ f =>
    unfold inIter
    simp only [pf, client, t, seqItem, hx]
    cases x with
    | tuple xs =>
      match xs with
      | [] => by_cases h1 : o.noPush = true <;> by_cases h2 : o.mapping = true <;>
          simp [h1, h2, typeOf, valLen, inStringTypes, mappingFrame, renderItemGen, renderPushed_eq]
      | [_] => by_cases h1 : o.noPush = true <;> by_cases h2 : o.mapping = true <;>
          simp [h1, h2, typeOf, valLen, inStringTypes, mappingFrame, renderItemGen, renderPushed_eq]
      | [_, b] => by_cases h1 : o.noPush = true <;> by_cases h2 : o.mapping = true <;>
          simp [h1, h2, typeOf, valLen, valAt, inStringTypes, renderItemGen, renderPushed_eq] <;>
          cases b <;> simp [mappingFrame]
      | _ :: _ :: _ :: _ => by_cases h1 : o.noPush = true <;> by_cases h2 : o.mapping = true <;>
          simp [h1, h2, typeOf, valLen, inStringTypes, mappingFrame, renderItemGen, renderPushed_eq]
    | _ => by_cases h1 : o.noPush = true <;> by_cases h2 : o.mapping = true <;>
          simp [h1, h2, typeOf, valLen, inStringTypes, mappingFrame, renderItemGen, renderPushed_eq]

/-- the two flag stores of a pass, as one update of the variables -/
theorem flags_form (sv : SeqVars) (c1 c2 : Prop) [Decidable c1] [Decidable c2] :
    (if c2 then { (if c1 then { sv with ended := true } else sv) with started := false }
      else (if c1 then { sv with ended := true } else sv)) =
    { sv with started := (if c2 then false else sv.started), ended := (if c1 then true else sv.ended) } := by
  by_cases h1 : c1 <;> by_cases h2 : c2 <;> simp only [h1, h2, if_true, if_false] <;> rfl

/-- the statements of a pass after the element is fetched = the interpreter's `inIter` on the updated variables -/
theorem inItemGen_spec (env : Env) (fuel : Nat) (o : InOpts) (body : List Blk) (sv : SeqVars) (i : Nat) (x : Val) (st : St)
    (hx : sv.items[i]? = some x) :
    inItemGen env fuel o body sv i x st =
      (match inIter env fuel { sv with index := i } o body i (syncVars { sv with index := i } st) with
       | (.ok p, st2) => .item p (if (i : Int) = 0 then { sv with index := i, started := false } else { sv with index := i }) st2
       | (.raise e, st2) => .stop (.raise e) st2
       | (.ret v, st2) => .stop (.ret v) st2
       | (.oom, st2) => .stop .oom st2) := by
  have h := renderItem_eq_inIter env fuel o body { sv with index := i } i x (syncVars { sv with index := i } st) hx
  simp only at h
  unfold inItemGen
  simp only [h]
  rfl

/-- a pass whose element the item guard refuses -/
theorem inStepGen_denied (env : Env) (fuel : Nat) (o : InOpts) (body : List Blk) (sv : SeqVars) (i : Nat) (st : St)
    (hd : itemDenied env sv i = true) :
    inStepGen env fuel o body sv i st =
      (if o.skipUnauth then
        .skip { sv with started := (if (i : Int) = 1 then false else sv.started),
                        ended := (if (i : Int) = (sv.items.length : Int) - 1 then true else sv.ended) }
          { st with trace := st.trace ++ [.gitem 0 i] }
       else .stop (.raise itemError) { st with trace := st.trace ++ [.gitem 0 i] }) := by
  have hg : env.guardOn = true := by
    simp only [itemDenied, Bool.and_eq_true] at hd
    exact hd.1
  have hd' : itemDenied env (if (i : Int) = (sv.items.length : Int) - 1 then { sv with ended := true } else sv) i = true := by
    by_cases h : (i : Int) = (sv.items.length : Int) - 1
    · simp only [h, if_true]; exact hd
    · simp only [h, if_false]; exact hd
  unfold inStepGen
  simp only [hg, if_true, guardedGetitem, hd']
  by_cases hsk : o.skipUnauth = true
  · simp only [hsk, if_true, flags_form]
  · simp [hsk]

/-- a pass whose element is handed out -/
theorem inStepGen_ok (env : Env) (fuel : Nat) (o : InOpts) (body : List Blk) (sv : SeqVars) (i : Nat) (st : St)
    (hd : itemDenied env sv i = false) :
    inStepGen env fuel o body sv i st =
      inItemGen env fuel o body { sv with ended := (if (i : Int) = (sv.items.length : Int) - 1 then true else sv.ended) } i
        (seqGetitem sv i) (if env.guardOn then { st with trace := st.trace ++ [.gitem 0 i] } else st) := by
  have hd' : itemDenied env (if (i : Int) = (sv.items.length : Int) - 1 then { sv with ended := true } else sv) i = false := by
    by_cases h : (i : Int) = (sv.items.length : Int) - 1
    · simp only [h, if_true]; exact hd
    · simp only [h, if_false]; exact hd
  have hsv : (if (i : Int) = (sv.items.length : Int) - 1 then { sv with ended := true } else sv) =
      { sv with ended := (if (i : Int) = (sv.items.length : Int) - 1 then true else sv.ended) } := by
    by_cases h : (i : Int) = (sv.items.length : Int) - 1 <;> simp only [h, if_true, if_false] <;> rfl
  have hd2 : itemDenied env { sv with ended := (if (i : Int) = (sv.items.length : Int) - 1 then true else sv.ended) } i = false := hd
  unfold inStepGen
  by_cases hg : env.guardOn = true
  · simp only [hg, if_true, guardedGetitem, hsv, hd2]
    rfl
  · simp only [hg, hsv]
    rfl

theorem getElem?_of_lt (sv : SeqVars) (i : Nat) (hi : i < sv.items.length) : sv.items[i]? = some (seqGetitem sv i) := by
  simp [seqGetitem, List.getElem?_eq_getElem hi]

theorem step_tail (env : Env) (fuel : Nat) (o : InOpts) (body : List Blk) (svN : SeqVars) (i : Nat) (r : Res Piece × St) :
    (match r with
      | (.ok p, st2) =>
        (match inLoop env fuel svN o body (i + 1) st2 with
         | (.ok ps, st3) => (.ok (p :: ps), st3)
         | r => r)
      | (.raise e, st2) => (.raise e, st2)
      | (.ret v, st2) => (.ret v, st2)
      | (.oom, st2) => (.oom, st2)) =
    inCont (match r with
      | (.ok p, st2) => Step.item p (if (i : Int) = 0 then { svN with started := false } else svN) st2
      | (.raise e, st2) => .stop (.raise e) st2
      | (.ret v, st2) => .stop (.ret v) st2
      | (.oom, st2) => .stop .oom st2) (fun sv' st' => inLoop env fuel sv' o body (i + 1) st') := by
  rcases r with ⟨r, st2⟩
  cases r with
  | ok p =>
    simp only [inCont]
    by_cases h0 : (i : Int) = 0
    · simp only [h0, if_true]
      have := inLoop_flags_irrel env o body fuel svN false svN.ended (i + 1) st2 (Or.inl rfl)
      rw [this]
      rfl
    · simp only [h0, if_false]
      rfl
  | raise e => simp only [inCont]
  | ret v => simp only [inCont]
  | oom => simp only [inCont]

theorem in_step_eq (env : Env) (fuel : Nat) (o : InOpts) (body : List Blk) (sv : SeqVars) (i : Nat) (st : St)
    (hi : i < sv.items.length) (hs : sv.started = startedAt env o sv i) :
    inLoop env (fuel + 1) sv o body i st =
      inCont (inStepGen env fuel o body sv i st) (fun sv' st' => inLoop env fuel sv' o body (i + 1) st') := by
  rw [inLoop]
  simp only [show ¬ (i ≥ sv.items.length) from by omega, if_false]
  by_cases hden : itemDenied env sv i = true
  · have hg : env.guardOn = true := by
      simp only [itemDenied, Bool.and_eq_true] at hden
      exact hden.1
    rw [inStepGen_denied env fuel o body sv i st hden]
    simp only [hden, hg, if_true]
    by_cases hsk : o.skipUnauth = true
    · simp only [hsk, if_true, inCont]
      symm
      apply inLoop_flags_irrel
      by_cases h : (i : Int) = (sv.items.length : Int) - 1
      · right; show i + 1 ≥ sv.items.length; omega
      · left; simp only [h, if_false]
    · simp only [hsk, inCont]
      rfl
  · have hden' : itemDenied env sv i = false := by simpa using hden
    rw [inStepGen_ok env fuel o body sv i st hden']
    have hx : ({ sv with ended := (if (i : Int) = (sv.items.length : Int) - 1 then true else sv.ended) } : SeqVars).items[i]? =
        some (seqGetitem sv i) := getElem?_of_lt sv i hi
    rw [inItemGen_spec env fuel o body _ i _ _ hx]
    have hsv : ({ sv with index := i, ended := sv.ended || i + 1 == sv.items.length, started := startedAt env o sv i } : SeqVars) =
        { sv with index := i, ended := (if (i : Int) = (sv.items.length : Int) - 1 then true else sv.ended) } := by
      rw [← hs]
      by_cases h : (i : Int) = (sv.items.length : Int) - 1
      · have h' : (i + 1 == sv.items.length) = true := by simp; omega
        simp only [h, h', if_true, Bool.or_true]
      · have h' : (i + 1 == sv.items.length) = false := by simp; omega
        simp only [h, h', if_false, Bool.or_false]
    simp only [hden', hsv]
    generalize (if env.guardOn = true then ({ st with trace := st.trace ++ [Event.gitem 0 (i : Int)] } : St) else st) = stG
    generalize hN : ({ sv with index := i, ended := (if (i : Int) = (sv.items.length : Int) - 1 then true else sv.ended) } : SeqVars) = svN
    have hf : ({ sv with index := i, started := false, ended := (if (i : Int) = (sv.items.length : Int) - 1 then true else sv.ended) } : SeqVars) = { svN with started := false } := by
      rw [← hN]
    simp only [Bool.false_eq_true, if_false, hf]
    exact step_tail env fuel o body svN i (inIter env fuel svN o body i (syncVars svN stG))

/-- the stateful `sequence-start` of the source against the interpreter's closed form: after a refused element that is skipped -/
theorem startedAt_succ_skip (env : Env) (o : InOpts) (sv : SeqVars) (i : Nat) (hd : itemDenied env sv i = true)
    (hsk : o.skipUnauth = true) :
    startedAt env o sv (i + 1) = (if (i : Int) = 1 then false else startedAt env o sv i) := by
  match i with
  | 0 => simp [startedAt, hd, hsk]
  | 1 => simp [startedAt, hd, hsk]
  | n + 2 =>
    simp only [startedAt]
    have h : ¬ ((n : Int) + 2 = 1) := by omega
    simp [h]

/-- … and after a rendered element -/
theorem startedAt_succ_item (env : Env) (o : InOpts) (sv : SeqVars) (i : Nat) (hd : itemDenied env sv i = false) :
    startedAt env o sv (i + 1) = (if (i : Int) = 0 then false else startedAt env o sv i) := by
  match i with
  | 0 => simp [startedAt, hd]
  | 1 => simp [startedAt, hd]
  | n + 2 =>
    simp only [startedAt]
    have h : ¬ ((n : Int) + 2 = 0) := by omega
    simp [h]

/-- the variables a pass hands on to the next one -/
def stepVars : Step → Option SeqVars
  | .skip sv _ => some sv
  | .item _ sv _ => some sv
  | .stop _ _ => none

theorem inCont_congr (s : Step) (k1 k2 : SeqVars → St → Res (List Piece) × St)
    (h : ∀ sv', stepVars s = some sv' → ∀ st', k1 sv' st' = k2 sv' st') : inCont s k1 = inCont s k2 := by
  cases s with
  | skip sv st => simp only [inCont]; exact h sv rfl st
  | item p sv st => simp only [inCont]; rw [h sv rfl st]
  | stop r st => rfl

/-- what a pass hands on: the same sequence, and `sequence-start` as the interpreter computes it for the next element -/
theorem step_keeps (env : Env) (fuel : Nat) (o : InOpts) (body : List Blk) (sv : SeqVars) (i : Nat) (st : St)
    (hi : i < sv.items.length) (hs : sv.started = startedAt env o sv i) (sv' : SeqVars)
    (h : stepVars (inStepGen env fuel o body sv i st) = some sv') :
    sv'.items = sv.items ∧ sv'.started = startedAt env o sv' (i + 1) := by
  by_cases hden : itemDenied env sv i = true
  · rw [inStepGen_denied env fuel o body sv i st hden] at h
    by_cases hsk : o.skipUnauth = true
    · simp only [hsk, if_true, stepVars, Option.some.injEq] at h
      subst h
      refine ⟨rfl, ?_⟩
      show (if (i : Int) = 1 then false else sv.started) = startedAt env o sv (i + 1)
      rw [startedAt_succ_skip env o sv i hden hsk, hs]
    · simp [hsk, stepVars] at h
  · have hden' : itemDenied env sv i = false := by simpa using hden
    have hx : ({ sv with ended := (if (i : Int) = (sv.items.length : Int) - 1 then true else sv.ended) } : SeqVars).items[i]? =
        some (seqGetitem sv i) := getElem?_of_lt sv i hi
    rw [inStepGen_ok env fuel o body sv i st hden', inItemGen_spec env fuel o body _ i _ _ hx] at h
    revert h
    generalize inIter env fuel _ o body i _ = r
    rcases r with ⟨r, st2⟩
    cases r with
    | ok p =>
      simp only [stepVars, Option.some.injEq]
      intro h
      subst h
      by_cases h0 : (i : Int) = 0
      · simp only [h0, if_true]
        refine ⟨trivial, ?_⟩
        show false = startedAt env o sv (i + 1)
        rw [startedAt_succ_item env o sv i hden']
        simp only [h0, if_true]
      · simp only [h0, if_false]
        refine ⟨trivial, ?_⟩
        show sv.started = startedAt env o sv (i + 1)
        rw [startedAt_succ_item env o sv i hden', hs]
        simp only [h0, if_false]
    | raise e => simp [stepVars]
    | ret v => simp [stepVars]
    | oom => simp [stepVars]

theorem in_loop_eq (env : Env) (o : InOpts) (body : List Blk) : ∀ (fuel : Nat) (sv : SeqVars) (i : Nat) (st : St),
    sv.started = startedAt env o sv i →
    inLoopGen env fuel o body sv i st = inLoop env fuel sv o body i st := by
  intro fuel
  induction fuel with
  | zero => intro sv i st _; simp [inLoopGen, inLoop]
  | succ f ih =>
    intro sv i st hs
    rcases Nat.lt_or_ge i sv.items.length with hi | hi
    · rw [in_step_eq env f o body sv i st hi hs, inLoopGen]
      simp only [show ((i : Int) < (sv.items.length : Int)) from by omega, if_true]
      apply inCont_congr
      intro sv' h st'
      have hk := step_keeps env f o body sv i st hi hs sv' h
      exact ih sv' (i + 1) st' hk.2
    · rw [inLoopGen, inLoop]
      simp only [show ¬ ((i : Int) < (sv.items.length : Int)) from by omega, if_false, hi, if_true]

/-! ### the batched loop (`renderwb`) -/

/-- what a pass of the batched loop stores before the element is fetched (the presets, the previous- / next-sequence
information on the first / last displayed element, `sequence-end`) is the interpreter's `batchStep` -/
theorem batchPre_eq (sv : SeqVars) (w : BWin) (i : Nat) : inBatchPreGen sv w i = batchStep sv w i := by
  have e1 : ((i : Int) = (w.first : Int)) ↔ i = w.first := by omega
  have e2 : ((i : Int) = (w.stop : Int) - 1) ↔ i + 1 = w.stop := by omega
  have e3 : ((w.first : Int) > 0) ↔ w.first > 0 := by omega
  have e4 : ∀ n : Nat, (-(n : Int) ≤ (w.stop : Int) ∧ (w.stop : Int) < (n : Int)) ↔ w.stop < n := by
    intro n; omega
  simp only [inBatchPreGen, batchStep, batchInfo, prevInfo, nextInfo, moreAfter, seqHas, e1, e2, e3, e4]
  by_cases h1 : i = w.first <;> by_cases h2 : i + 1 = w.stop <;> by_cases h3 : w.first > 0 <;> simp [h1, h2, h3]

theorem afterItem_eq (sv : SeqVars) (w : BWin) (i : Nat) :
    (if (i : Int) = (w.first : Int) then { sv with started := false } else sv) = afterItem sv w i := by
  have e1 : ((i : Int) = (w.first : Int)) ↔ i = w.first := by omega
  simp only [afterItem, e1, beq_iff_eq]

/-- the statements of a batched pass after the element is fetched = `inIter` on the updated variables, then `afterItem` -/
theorem afterItem_eq2 (sv : SeqVars) (w : BWin) (i j : Nat) :
    (if (i : Int) = (w.first : Int) then { sv with index := j, started := false } else { sv with index := j }) =
      afterItem { sv with index := j } w i := afterItem_eq { sv with index := j } w i

theorem inBatchItemGen_spec (env : Env) (fuel : Nat) (o : InOpts) (w : BWin) (body : List Blk) (sv : SeqVars) (i : Nat) (x : Val)
    (st : St) (hx : sv.items[i]? = some x) :
    inBatchItemGen env fuel o w body sv i x st =
      (match inIter env fuel { sv with index := i } o body i (syncVars { sv with index := i } st) with
       | (.ok p, st2) => .item p (afterItem { sv with index := i } w i) st2
       | (.raise e, st2) => .stop (.raise e) st2
       | (.ret v, st2) => .stop (.ret v) st2
       | (.oom, st2) => .stop .oom st2) := by
  have h := renderItem_eq_inIter env fuel o body { sv with index := i } i x (syncVars { sv with index := i } st) hx
  simp only at h
  unfold inBatchItemGen
  simp only [h, ← afterItem_eq2]
  rfl

theorem batch_tail (env : Env) (fuel : Nat) (o : InOpts) (w : BWin) (body : List Blk) (svN : SeqVars) (i : Nat) (r : Res Piece × St) :
    (match r with
      | (.ok p, st2) =>
        (match inLoopB env fuel (afterItem svN w i) o w body (i + 1) st2 with
         | (.ok ps, st3) => (.ok (p :: ps), st3)
         | r => r)
      | (.raise e, st2) => (.raise e, st2)
      | (.ret v, st2) => (.ret v, st2)
      | (.oom, st2) => (.oom, st2)) =
    inCont (match r with
      | (.ok p, st2) => Step.item p (afterItem svN w i) st2
      | (.raise e, st2) => .stop (.raise e) st2
      | (.ret v, st2) => .stop (.ret v) st2
      | (.oom, st2) => .stop .oom st2) (fun sv' st' => inLoopB env fuel sv' o w body (i + 1) st') := by
  rcases r with ⟨r, st2⟩
  cases r <;> simp only [inCont] <;> rfl

/-- one pass of the batched loop is one unfolding of `inLoopB` -/
theorem in_batch_step_eq (env : Env) (fuel : Nat) (o : InOpts) (w : BWin) (body : List Blk) (sv : SeqVars) (i : Nat) (st : St)
    (hw : i < w.stop) (hi : i < (batchStep sv w i).items.length) :
    inLoopB env (fuel + 1) sv o w body i st =
      inCont (inBatchStepGen env fuel o w body sv i st) (fun sv' st' => inLoopB env fuel sv' o w body (i + 1) st') := by
  rw [inLoopB]
  simp only [show ¬ (i ≥ w.stop) from by omega, if_false]
  unfold inBatchStepGen
  simp only [batchPre_eq]
  generalize batchStep sv w i = sv1 at hi ⊢
  have hx : sv1.items[i]? = some (seqGetitem sv1 i) := getElem?_of_lt sv1 i hi
  by_cases hden : itemDenied env sv1 i = true
  · have hg : env.guardOn = true := by
      simp only [itemDenied, Bool.and_eq_true] at hden
      exact hden.1
    simp only [hg, hden, if_true, guardedGetitem, afterItem_eq]
    by_cases hsk : o.skipUnauth = true
    · simp only [hsk, if_true, inCont]
    · simp only [hsk, inCont]
      rfl
  · have hden' : itemDenied env sv1 i = false := by simpa using hden
    by_cases hg : env.guardOn = true
    · simp only [hg, hden', if_true, guardedGetitem, Bool.false_eq_true, if_false]
      rw [inBatchItemGen_spec env fuel o w body sv1 i _ _ hx]
      exact batch_tail env fuel o w body { sv1 with index := i } i _
    · simp only [hg, hden', Bool.false_eq_true, if_false]
      rw [inBatchItemGen_spec env fuel o w body sv1 i _ _ hx]
      exact batch_tail env fuel o w body { sv1 with index := i } i _

/-- the variables a batched pass hands on hold the same sequence -/
theorem batch_step_items (env : Env) (fuel : Nat) (o : InOpts) (w : BWin) (body : List Blk) (sv : SeqVars) (i : Nat) (st : St)
    (hi : i < (batchStep sv w i).items.length) (sv' : SeqVars)
    (h : stepVars (inBatchStepGen env fuel o w body sv i st) = some sv') : sv'.items = (batchStep sv w i).items := by
  unfold inBatchStepGen at h
  simp only [batchPre_eq] at h
  generalize batchStep sv w i = sv1 at hi h ⊢
  have hx : sv1.items[i]? = some (seqGetitem sv1 i) := getElem?_of_lt sv1 i hi
  have key : ∀ (x : Val) (st0 : St), stepVars (inBatchItemGen env fuel o w body sv1 i (seqGetitem sv1 i) st0) = some sv' →
      sv'.items = sv1.items := by
    intro _ st0
    rw [inBatchItemGen_spec env fuel o w body sv1 i _ _ hx]
    generalize inIter env fuel _ o body i _ = r
    rcases r with ⟨r, st2⟩
    cases r with
    | ok p =>
      simp only [stepVars, Option.some.injEq]
      intro h; subst h
      simp only [afterItem]; split <;> rfl
    | raise e => simp [stepVars]
    | ret v => simp [stepVars]
    | oom => simp [stepVars]
  by_cases hg : env.guardOn = true
  · by_cases hden : itemDenied env sv1 i = true
    · simp only [hg, hden, if_true, guardedGetitem, afterItem_eq] at h
      by_cases hsk : o.skipUnauth = true
      · simp only [hsk, if_true, stepVars, Option.some.injEq] at h
        subst h
        simp only [afterItem]; split <;> rfl
      · simp [hsk, stepVars] at h
    · have hden' : itemDenied env sv1 i = false := by simpa using hden
      simp only [hg, hden', if_true, guardedGetitem, Bool.false_eq_true, if_false] at h
      exact key .none _ h
  · simp only [hg, Bool.false_eq_true, if_false] at h
    exact key .none _ h

/-! ### the prologue and the epilogue of `renderwob` -/

/-- go on with a result, hand an exception / return / out-of-fuel up -/
def contR {α γ : Type} (r : Res α × St) (k : α → St → Res γ × St) : Res γ × St :=
  match r with
  | (.ok a, s) => k a s
  | (.raise e, s) => (.raise e, s)
  | (.ret v, s) => (.ret v, s)
  | (.oom, s) => (.oom, s)

theorem oneRes_contR {α : Type} (r : Res α × St) (k : α → St → Res Piece × St) :
    oneRes (contR r k) = contR r (fun a s => oneRes (k a s)) := by
  rcases r with ⟨r, s⟩
  cases r <;> simp [contR, oneRes]

theorem sortPart_key (env : Env) (o : InOpts) (x : InXOpts) (k : Option Text) (xs : List Val) (st : St) :
    sortPart env o { x with sortKey := k } xs st = sortPart env o { sortKey := k } xs st := rfl

/-- the sort step of the source (`sort_expr` wins over `sort=`) is `evalSortKey` followed by `sortPart` -/
theorem sort_step_eq {γ : Type} (env : Env) (f : Nat) (o : InOpts) (x : InXOpts) (V : Val) (st : St) (K : List Val → St → Res γ × St) :
    contR (inSortGen env (f + 1) o x V st) (fun v s => K (seqItems v) s) =
      contR (evalSortKey env (f + 1) x st) (fun key sA => contR (sortPart env o { x with sortKey := key } (seqItems V) sA) K) := by
  unfold inSortGen evalSortKey
  simp only [sortPart_key]
  cases hse : x.sortExpr with
  | none =>
    simp only []
    cases hsk : x.sortKey with
    | none => simp [contR, sortPart]
    | some k =>
      simp only [contR, sortSequence]
      generalize sortPart env o { sortKey := some k } (seqItems V) st = r
      rcases r with ⟨r, s⟩
      cases r <;> simp [seqItems]
  | some e =>
    simp only [sortExprEval]
    generalize evalExpr env f e st = r
    rcases r with ⟨r, s⟩
    cases r with
    | ok v =>
      cases v <;> simp only [contR]
      case str t =>
        simp only [sortSequence]
        generalize sortPart env o { sortKey := some t } (seqItems V) s = r
        rcases r with ⟨r, s'⟩
        cases r <;> simp [seqItems]
    | raise e => simp [contR]
    | ret v => simp [contR]
    | oom => simp [contR]

/-- the reverse step of the source (`reverse_expr` true, or else `reverse`) is `evalReverse` followed by `applyReverse` -/
theorem reverse_step_eq {γ : Type} (env : Env) (f : Nat) (o : InOpts) (x : InXOpts) (V : Val) (st : St) (K : List Val → St → Res γ × St) :
    contR (inReverseGen env (f + 1) o x V st) (fun v s => K (seqItems v) s) =
      contR (evalReverse env (f + 1) x st) (fun rev s1 => K (applyReverse rev (seqItems V)) s1) := by
  unfold inReverseGen evalReverse
  cases hre : x.reverseExpr with
  | none =>
    simp only []
    by_cases hr : x.reverse = true <;> simp [contR, hr, applyReverse, reverseSequence, seqItems]
  | some e =>
    simp only [exprTruth]
    generalize evalExpr env f e st = r
    rcases r with ⟨r, s⟩
    cases r with
    | ok v =>
      by_cases ht : truthy v = true <;> by_cases hr : x.reverse = true <;>
        simp [contR, ht, hr, applyReverse, reverseSequence, seqItems]
    | raise e => simp [contR]
    | ret v => simp [contR]
    | oom => simp [contR]

/-- what `renderBlk` does on dtml-in once the sequence is arranged (no batch): the frames pushed, `inLoop`, the pops, the join -/
def loopPart (env : Env) (fuel : Nat) (o : InOpts) (body : List Blk) (ys : List Val) (cache : List Frame) (s1 : St) : Res (List Piece) × St :=
  let sv : SeqVars := { items := ys, mapping := o.mapping, prefix_ := o.prefix_ }
  let (r, st2) := inLoop env fuel sv o body 0 { s1 with stack := (Frame.seq sv :: cache) ++ s1.stack }
  let st3 := { st2 with stack := st2.stack.drop (Frame.seq sv :: cache).length }
  (match r with
   | .ok ps =>
     (match joinUnicode env ps with
      | .ok p => (.ok (if pieceEmpty p then [] else [p]), st3)
      | .raise e => (.raise e, st3)
      | _ => (.oom, st3))
   | .raise e => (.raise e, st3)
   | .ret x => (.ret x, st3)
   | .oom => (.oom, st3))

/-- the construction of the variables, the pushes, the loop, the join and the pops of the source are `loopPart` -/
theorem render_eq (env : Env) (fuel : Nat) (o : InOpts) (body : List Blk) (ys : List Val) (cache : Option Frame) (s1 : St) :
    oneRes (inRenderGen env fuel o body (.list ys) cache s1) = loopPart env fuel o body ys cache.toList s1 := by
  unfold inRenderGen loopPart
  simp only [seqItems]
  have hl := in_loop_eq env o body fuel { items := ys, mapping := o.mapping, prefix_ := o.prefix_ } 0
  simp only [show inLoopStart = 0 from rfl]
  cases cache with
  | none =>
    simp only [Option.toList, List.cons_append, List.nil_append, List.length_cons, List.length_nil]
    rw [hl _ rfl]
    generalize inLoop env fuel _ o body 0 _ = r
    rcases r with ⟨r, st2⟩
    cases r with
    | ok ps =>
      simp only [joinResult]
      cases joinUnicode env ps <;> simp [oneRes]
    | raise e => simp [joinResult, oneRes]
    | ret v => simp [joinResult, oneRes]
    | oom => simp [joinResult, oneRes]
  | some c =>
    simp only [Option.toList, List.cons_append, List.nil_append, List.length_cons, List.length_nil]
    rw [hl _ rfl]
    generalize inLoop env fuel _ o body 0 _ = r
    rcases r with ⟨r, st2⟩
    cases r with
    | ok ps =>
      simp only [joinResult]
      cases joinUnicode env ps <;> simp [oneRes]
    | raise e => simp [joinResult, oneRes]
    | ret v => simp [joinResult, oneRes]
    | oom => simp [joinResult, oneRes]

def K2 (env : Env) (f : Nat) (o : InOpts) (body : List Blk) (cache : Option Frame) (ys : List Val) (s : St) : Res Piece × St :=
  inRenderGen env (f + 1) o body (.list ys) cache s

def K1 (env : Env) (f : Nat) (o : InOpts) (x : InXOpts) (body : List Blk) (cache : Option Frame) (ys : List Val) (s : St) :
    Res Piece × St :=
  contR (evalReverse env (f + 1) x s) (fun rev s1 => K2 env f o body cache (applyReverse rev ys) s1)

/-- the steps between the emptiness probe and the loop, in the order of the source: sort, then reverse -/
theorem arrange_eq (env : Env) (f : Nat) (o : InOpts) (x : InXOpts) (body : List Blk) (els : Option (List Blk)) (V : Val)
    (cache : Option Frame) (st : St) (hs : isStr V = false) (hp : seqItems V ≠ []) :
    oneRes (inArrangeGen env (f + 1) o x body els V cache st) =
      contR (evalSortKey env (f + 1) x st) (fun key sA =>
        contR (sortPart env o { x with sortKey := key } (seqItems V) sA) (fun sorted sB =>
          contR (evalReverse env (f + 1) x sB) (fun rev s1 =>
            loopPart env (f + 1) o body (applyReverse rev sorted) cache.toList s1))) := by
  have hprobe : seqProbe V 0 = true := by
    simp only [seqProbe, decide_eq_true_eq]
    have : (seqItems V).length > 0 := List.length_pos_iff.mpr hp
    omega
  have h0 : inArrangeGen env (f + 1) o x body els V cache st =
      contR (inSortGen env (f + 1) o x V st) (fun v s =>
        contR (inReverseGen env (f + 1) o x v s) (fun v' s' => inRenderGen env (f + 1) o body v' cache s')) := by
    unfold inArrangeGen
    simp only [hs, hprobe, Bool.false_eq_true, if_false, if_true]
    generalize inSortGen env (f + 1) o x V st = r
    rcases r with ⟨r, s⟩
    cases r with
    | ok v =>
      simp only [contR]
      generalize inReverseGen env (f + 1) o x v s = r2
      rcases r2 with ⟨r2, s2⟩
      cases r2 <;> rfl
    | raise e => rfl
    | ret v => rfl
    | oom => rfl
  have hB : ∀ v s, contR (inReverseGen env (f + 1) o x v s) (fun v' s' => inRenderGen env (f + 1) o body v' cache s') =
      K1 env f o x body cache (seqItems v) s := by
    intro v s
    exact reverse_step_eq env f o x v s (K2 env f o body cache)
  have e1 : inArrangeGen env (f + 1) o x body els V cache st =
      contR (inSortGen env (f + 1) o x V st) (fun v s => K1 env f o x body cache (seqItems v) s) := by
    rw [h0]
    congr 1
    funext v s
    exact hB v s
  rw [e1, sort_step_eq env f o x V st (K1 env f o x body cache)]
  simp only [oneRes_contR]
  congr 1
  funext key sA
  congr 1
  funext sorted sB
  simp only [K1, K2, oneRes_contR, render_eq]

end DTML.Lemmas.InGen
