/-
Lemmas for the fetch part of `Var.render` translated from the source (GenFetch.lean, harness/trans_fetch.py):
what the two models do with a value that has passed the null test, and the null test itself.
-/
import DTML.GenFetch
set_option linter.unusedVariables false
namespace DTML.Lemmas.Fetch

section Interp
open DTML.Render DTML.GenFetch

/-- what dtml-var of the interpreter model does with a value that has passed the null test (`insertVal` without its
first branch): html quoting, insertion - the part of the model that stands for the stages after the fetch -/
def afterNull (env : Env) (hq : Bool) (v : Val) (st : St) : Out :=
  let one (p : Piece) : List Piece := if pieceEmpty p then [] else [p]
  if hq then
    (match htmlQuote env (pieceOfVal v) with
     | .ok p => (.ok (one p), st)
     | .raise e => (.raise e, st)
     | _ => (.oom, st))
  else (.ok (one (pieceOfVal v)), st)

/-- `not val and val != 0` with `!=` as the model's `==` computes it is the test of `insertVal` -/
theorem nullTest_eq (v : Val) :
    (!truthy v && !valBeq 1 v (.int 0)) =
      (!truthy v && (match v with | .int _ => false | .bool _ => false | _ => true)) := by
  cases v <;> simp [truthy, valBeq]

/-- the translated null test followed by `afterNull` is `insertVal` -/
theorem fetchNull_is_insertVal (env : Env) (hq : Bool) (args : Args) (v : Val) (st : St) :
    fetchNullGen args (afterNull env hq) v st = insertVal env hq args.null v st := by
  unfold fetchNullGen insertVal afterNull retText
  rw [Bool.and_assoc, nullTest_eq, ← Bool.and_assoc]
  cases (args.null.isSome && !truthy v && match v with | .int _ => false | .bool _ => false | _ => true) <;> rfl

/-- `md[name]` / `expr.eval(md)` followed by the null test and the insertion: `fetchVar` -/
theorem bind_item_is_fetchVar (env : Env) (fuel : Nat) (n : Text) (hq : Bool) (args : Args) (st : St) :
    bind (mdItem env fuel n st) (fun val st => fetchNullGen args (afterNull env hq) val st) =
      fetchVar env fuel (.name n) hq args.null st := by
  match fuel with
  | 0 => rfl
  | 1 => rfl
  | g + 2 =>
    show bind (getitem env g n true st) _ = _
    simp only [fetchVar, evalSrc]
    cases h : getitem env g n true st with
    | mk r st' => cases r <;> simp [GenFetch.bind, fetchNull_is_insertVal]

theorem bind_eval_is_fetchVar (env : Env) (fuel : Nat) (e : Expr) (hq : Bool) (args : Args) (st : St) :
    bind (exprEval env fuel e st) (fun val st => fetchNullGen args (afterNull env hq) val st) =
      fetchVar env fuel (.expr e) hq args.null st := by
  match fuel with
  | 0 => rfl
  | 1 => rfl
  | g + 2 =>
    show bind (evalExpr env g e st) _ = _
    simp only [fetchVar, evalSrc]
    cases h : evalExpr env g e st with
    | mk r st' => cases r <;> simp [GenFetch.bind, fetchNull_is_insertVal]

end Interp

section Pipe
open DTML.Quote DTML.VarPipe DTML.GenFetch

/-- the stages of `renderFull` after the null test: `fmt=`, then the rest -/
def afterNullPipe (x : Ext) (sp : Spec) (v : Val) : Option (R Text) :=
  match fmtOpt x sp v with
  | none => none
  | some (.error e) => some (.error e)
  | some (.ok v1) => afterFmt x sp v1

theorem nullTestPipe_eq (v : Val) : (!truthy v && !eqInt v 0) = isNull v := by
  cases v <;> simp [truthy, eqInt, isNull]

theorem fetchNullPipe_is_renderFull (x : Ext) (sp : Spec) (args : Args) (h : args.null = sp.null) (v : Val) :
    fetchNullPipeGen args (afterNullPipe x sp) v = renderFull x sp v := by
  unfold fetchNullPipeGen renderFull afterNullPipe
  rw [Bool.and_assoc, nullTestPipe_eq, h]
  split <;> rfl

end Pipe

end DTML.Lemmas.Fetch
