/-
The main loop of `String.parse` (DT_String.py) as a hand-written model - one round `parseStep`, the loop `parseLoop` -
and what it does with the text: the rounds cut the text into (literal, tag, what parse_block consumed) segments that
tile it.  Props/C01 proves the translation of the source (GenParseLoop.lean) equal to this model.
-/
import DTML.GenParseLoop
namespace DTML.Lemmas.ParseLoop
open DTML.Scan DTML.GenParseLoop

variable {M A C R E : Type}

/-- `if s: result.append(s)` -/
def appendLit (result : List (Item R)) (s : Text) : List (Item R) :=
  if !s.isEmpty then result ++ [.lit s] else result

/-- one round of `while mo:` up to the next search -/
def parseStep (P : Params M A C R E) (text : Text) (start : Nat) (result : List (Item R)) (mo : M) :
    Except E (Nat × List (Item R)) :=
  let l := P.moStart mo
  match P.parseTag mo with
  | .error m => .error (P.errorAt m text l)
  | .ok (tag, args, command, _) =>
    let result := appendLit result (pySlice text start l)
    let start := l + tag.length
    if P.hasBlockContinuations command then
      match P.parseBlock text start result tag l args command with
      | .error e => .error e
      | .ok (start, result) => .ok (start, result)
    else
      match (if P.isVar command then P.callVar command args mo else P.call command args) with
      | .error m => .error (P.errorIn m tag text l)
      | .ok r => .ok (start, result ++ [.node (if P.hasSimpleForm r then P.simpleForm r else r)])

/-- the loop and the statements after it -/
def parseLoop (P : Params M A C R E) (text : Text) : Nat → Nat → List (Item R) → Option M → Except E (List (Item R))
  | 0, start, result, _ => .ok (appendLit result (text.drop start))
  | _ + 1, start, result, none => .ok (appendLit result (text.drop start))
  | fuel + 1, start, result, some mo =>
    match parseStep P text start result mo with
    | .error e => .error e
    | .ok (start, result) => parseLoop P text fuel start result (P.search text start)

/-! ### the segments -/

/-- the items a literal contributes: none when it is empty -/
def litItems (l : Text) : List (Item R) := if l.isEmpty then [] else [.lit l]

theorem appendLit_eq (result : List (Item R)) (s : Text) : appendLit result s = result ++ litItems s := by
  unfold appendLit litItems
  cases s.isEmpty <;> simp

/-- one round as the theorem sees it -/
structure Seg (R : Type) where
  /-- the literal before the tag -/
  lit : Text
  /-- the tag's own text -/
  tag : Text
  /-- what `parse_block` consumed after the opening tag (`[]` for a simple tag) -/
  body : Text
  /-- what was appended to `result` for the tag -/
  items : List (Item R)
  /-- a simple tag -/
  simple : Bool

/-- what the rounds append: per segment the literal (if not empty) and the tag's items; then the rest (if not empty) -/
def segItems (segs : List (Seg R)) (tail : Text) : List (Item R) :=
  segs.flatMap (fun s => litItems s.lit ++ s.items) ++ litItems tail

/-- the text the segments stand for -/
def segText (segs : List (Seg R)) (tail : Text) : Text :=
  segs.flatMap (fun s => s.lit ++ s.tag ++ s.body) ++ tail

/-- a simple tag consumes nothing but its own text and contributes exactly one compiled item -/
def SimpleOk (s : Seg R) : Prop := s.simple = true → s.body = [] ∧ ∃ r, s.items = [.node r]

/-- what (1) asks of the parameters: matches lie at or after `start`; the tag text `_parseTag` hands back is what
stands at the match; `parse_block` only appends to `result` and does not go backwards -/
structure Sound (P : Params M A C R E) (text : Text) : Prop where
  search_ge : ∀ start mo, P.search text start = some mo → start ≤ P.moStart mo
  tag_at : ∀ start mo tag a c co, P.search text start = some mo → P.parseTag mo = .ok (tag, a, c, co) →
    tag <+: text.drop (P.moStart mo)
  block_mono : ∀ start result tag l a c start' result',
    P.parseBlock text start result tag l a c = .ok (start', result') → start ≤ start' ∧ ∃ items, result' = result ++ items

theorem drop_split (text : Text) (a b : Nat) (h : a ≤ b) : text.drop a = pySlice text a b ++ text.drop b := by
  have : text.drop b = (text.drop a).drop (b - a) := by
    rw [List.drop_drop]; congr 1; omega
  rw [this, pySlice, List.take_append_drop]

theorem drop_tag (text tag : Text) (l : Nat) (h : tag <+: text.drop l) :
    text.drop l = tag ++ text.drop (l + tag.length) := by
  obtain ⟨r, hr⟩ := h
  have : text.drop (l + tag.length) = r := by
    rw [← List.drop_drop, ← hr, List.drop_left]
  rw [this, hr]

/-- one successful round: the segment it cuts off -/
theorem parseStep_seg (P : Params M A C R E) (text : Text) (hP : Sound P text) (start : Nat) (result : List (Item R))
    (mo : M) (hmo : start ≤ P.moStart mo) (s0 : Nat) (hfound : P.search text s0 = some mo) (start' : Nat) (result' : List (Item R))
    (h : parseStep P text start result mo = .ok (start', result')) :
    ∃ s : Seg R, SimpleOk s ∧ s.lit = pySlice text start (P.moStart mo) ∧
      result' = result ++ (litItems s.lit ++ s.items) ∧
      text.drop start = (s.lit ++ s.tag ++ s.body) ++ text.drop start' := by
  unfold parseStep at h
  simp only at h
  split at h
  · cases h
  · rename_i tag args command co htag
    have hpre := hP.tag_at _ _ _ _ _ _ hfound htag
    have h1 := drop_split text start (P.moStart mo) hmo
    have h2 := drop_tag text tag _ hpre
    split at h
    · split at h
      · cases h
      · rename_i s' r' hb
        cases h
        obtain ⟨hle, items, hit⟩ := hP.block_mono _ _ _ _ _ _ _ _ hb
        have h3 := drop_split text _ _ hle
        refine ⟨⟨pySlice text start (P.moStart mo), tag, pySlice text (P.moStart mo + tag.length) start', items, false⟩,
          ?_, rfl, ?_, ?_⟩
        · intro hs; cases hs
        · simp only [hit, appendLit_eq, List.append_assoc]
        · simp only [List.append_assoc]
          rw [← h3, ← h2, ← h1]
    · split at h
      · cases h
      · rename_i r hr
        cases h
        refine ⟨⟨pySlice text start (P.moStart mo), tag, [], [.node (if P.hasSimpleForm r then P.simpleForm r else r)],
          true⟩, ?_, rfl, ?_, ?_⟩
        · intro _; exact ⟨rfl, _, rfl⟩
        · simp only [appendLit_eq, List.append_assoc]
        · simp only [List.append_assoc, List.nil_append]
          rw [← h2, ← h1]

/-- **the rounds tile the text**: whatever the fuel, a run of the loop that ends without a ParseError has appended,
per round, the literal between the end of the tag before and the start of this one (never an empty one) and the
tag's items, then the rest of the text (if any); literals, tag texts and block bodies in order are the text from
`start` on -/
theorem parseLoop_segments (P : Params M A C R E) (text : Text) (hP : Sound P text) :
    ∀ (fuel start : Nat) (result : List (Item R)) (mo : Option M) (out : List (Item R)),
      (∀ m, mo = some m → start ≤ P.moStart m ∧ ∃ s0, P.search text s0 = some m) →
      parseLoop P text fuel start result mo = .ok out →
      ∃ (segs : List (Seg R)) (tail : Text), (∀ s ∈ segs, SimpleOk s) ∧
        out = result ++ segItems segs tail ∧ text.drop start = segText segs tail := by
  intro fuel
  induction fuel with
  | zero =>
    intro start result mo out _ h
    simp only [parseLoop, Except.ok.injEq] at h
    exact ⟨[], text.drop start, by simp, by simp [← h, appendLit_eq, segItems], by simp [segText]⟩
  | succ n ih =>
    intro start result mo out hmo h
    cases mo with
    | none =>
      simp only [parseLoop, Except.ok.injEq] at h
      exact ⟨[], text.drop start, by simp, by simp [← h, appendLit_eq, segItems], by simp [segText]⟩
    | some m =>
      simp only [parseLoop] at h
      split at h
      · cases h
      · rename_i start' result' hstep
        obtain ⟨s, hs, _, hres, htext⟩ := parseStep_seg P text hP start result m (hmo m rfl).1 _ (hmo m rfl).2.choose_spec start' result' hstep
        obtain ⟨segs, tail, hall, hout, hrest⟩ := ih start' result' (P.search text start') out
          (fun m' hm' => ⟨hP.search_ge _ _ hm', _, hm'⟩) h
        refine ⟨s :: segs, tail, ?_, ?_, ?_⟩
        · intro x hx
          rcases List.mem_cons.mp hx with rfl | hx
          · exact hs
          · exact hall x hx
        · rw [hout, hres]; simp only [segItems, List.flatMap_cons, List.append_assoc]
        · rw [htext, hrest]; simp only [segText, List.flatMap_cons, List.append_assoc]

end DTML.Lemmas.ParseLoop
