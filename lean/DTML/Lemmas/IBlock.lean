/-
Lemmas for the obligation "the conditional of the model is the 'i' block of the source" (Props/C09.gen_if_block_is_model):
`GenRender.iLoopGen` / `iBlockGen` are regenerated from `render_blocks_` on every run (harness/trans_render.py); here the
index-walking loop over the cells of the compiled tuple is proved equal to `Render.condLoop` on the conditional the cells
encode, for every run of the model that does not end in "out of fuel".  No Mathlib.
-/
import DTML.GenRender
namespace DTML.Lemmas.IBlock
open DTML.Render DTML.GenRender

def encodeI (conds : List (Src × List Blk)) (els : Option (List Blk)) : List ICell :=
  conds.flatMap (fun p => [ICell.cond p.1, ICell.body p.2]) ++ (match els with | some b => [ICell.body b] | none => [])

def notOom {α : Type} : Res α → Prop
  | .oom => False
  | _ => True

theorem renderOpt_eq (env : Env) (fuel : Nat) (b : List Blk) (st : St)
    (h : notOom (renderBlocks env fuel b st).1) : renderOpt env fuel b st = renderBlocks env fuel b st := by
  unfold renderOpt
  cases b with
  | nil =>
    cases fuel with
    | zero => simp [renderBlocks, notOom] at h
    | succ f => simp [renderBlocks]
  | cons x xs => simp

theorem encodeI_length (conds : List (Src × List Blk)) (els : Option (List Blk)) :
    (encodeI conds els).length = 2 * conds.length + (match els with | some _ => 1 | none => 0) := by
  induction conds with
  | nil => cases els <;> simp [encodeI]
  | cons p ps ih =>
    simp only [encodeI, List.flatMap_cons, List.length_append, List.length_cons, List.length_nil] at ih ⊢
    omega


theorem getElem_pre (pre rest : List ICell) : (pre ++ rest)[pre.length]? = rest.head? := by
  induction pre with
  | nil => cases rest <;> simp
  | cons x xs ih => simpa using ih

theorem getElem_pre1 (pre : List ICell) (a : ICell) (rest : List ICell) :
    (pre ++ a :: rest)[pre.length + 1]? = rest.head? := by
  have := getElem_pre (pre ++ [a]) rest
  simpa [List.append_assoc] using this

/-- the loop of the source, started at cell `pre.length` of `pre ++ encodeI rest els`, is `condLoop` on `rest` -/
theorem iLoop_spec (env : Env) (els : Option (List Blk)) :
    ∀ (fuel : Nat) (rest : List (Src × List Blk)) (pre : List ICell) (st : St),
    notOom (condLoop env fuel rest els st).1 →
    iLoopGen env (pre ++ encodeI rest els) (((pre ++ encodeI rest els).length : Int) - 1) fuel pre.length st =
      condLoop env fuel rest els st := by
  intro fuel
  induction fuel with
  | zero => intro rest pre st h; simp [condLoop, notOom] at h
  | succ f ih =>
    intro rest pre st h
    cases rest with
    | nil =>
      cases els with
      | none =>
        have hlen : (((pre ++ encodeI [] none).length : Int) - 1) = (pre.length : Int) - 1 := by simp [encodeI]
        simp only [iLoopGen, hlen, condLoop]
        have h1 : ¬ ((pre.length : Int) < (pre.length : Int) - 1) := by omega
        have h2 : ¬ ((pre.length : Int) = (pre.length : Int) - 1) := by omega
        rw [if_neg h1, if_neg h2]
      | some b =>
        have hlen : (((pre ++ encodeI [] (some b)).length : Int) - 1) = (pre.length : Int) := by simp [encodeI]
        simp only [iLoopGen, hlen, condLoop]
        have h1 : ¬ ((pre.length : Int) < (pre.length : Int)) := by omega
        rw [if_neg h1]
        simp only [if_true]
        have hb : bodyAt (pre ++ encodeI [] (some b)) pre.length = b := by
          simp only [bodyAt, getElem_pre]; simp [encodeI]
        rw [hb]
        apply renderOpt_eq
        simpa [condLoop] using h
    | cons p rest' =>
      obtain ⟨src, body⟩ := p
      have hcells : pre ++ encodeI ((src, body) :: rest') els = pre ++ ICell.cond src :: ICell.body body :: encodeI rest' els := by
        simp [encodeI]
      have hcells2 : pre ++ encodeI ((src, body) :: rest') els = (pre ++ [ICell.cond src, ICell.body body]) ++ encodeI rest' els := by
        simp [encodeI]
      have hlt : ((pre.length : Nat) : Int) < (((pre ++ encodeI ((src, body) :: rest') els).length : Int) - 1) := by
        rw [hcells]; simp; omega
      have hc : (pre ++ encodeI ((src, body) :: rest') els)[pre.length]? = some (ICell.cond src) := by
        rw [hcells, getElem_pre]; rfl
      have hb : bodyAt (pre ++ encodeI ((src, body) :: rest') els) (pre.length + 1) = body := by
        simp only [bodyAt]; rw [hcells, getElem_pre1]; rfl
      have hnext : ∀ st2, notOom (condLoop env f rest' els st2).1 →
          iLoopGen env (pre ++ encodeI ((src, body) :: rest') els)
            (((pre ++ encodeI ((src, body) :: rest') els).length : Int) - 1) f (pre.length + 2) st2 =
          condLoop env f rest' els st2 := by
        intro st2 h2
        have := ih rest' (pre ++ [ICell.cond src, ICell.body body]) st2 h2
        rw [← hcells2] at this
        simpa using this
      rw [iLoopGen, if_pos hlt, hc]
      simp only [condLoop] at h ⊢
      cases src with
      | name n =>
        simp only at h ⊢
        cases hg : getitem env f n true st with
        | mk r st' =>
          rw [hg] at h
          cases r with
          | ok v =>
            simp only at h ⊢
            rw [hb]
            by_cases ht : truthy v = true
            · simp only [ht, if_true] at h ⊢
              exact renderOpt_eq _ _ _ _ h
            · simp only [ht] at h ⊢
              exact hnext _ h
          | raise e =>
            simp only at h ⊢
            by_cases hk : (e.cls = "KeyError".toList && e.msg = n) = true
            · simp only [hk, if_true] at h ⊢
              have htn : truthy Val.none = false := rfl
              simp only [htn] at h ⊢
              exact hnext _ h
            · simp only [hk] at h ⊢
              rfl
          | ret v => rfl
          | oom => rfl
      | expr e =>
        simp only at h ⊢
        cases hg : evalExpr env f e st with
        | mk r st' =>
          rw [hg] at h
          cases r with
          | ok v =>
            simp only at h ⊢
            rw [hb]
            by_cases ht : truthy v = true
            · simp only [ht, if_true] at h ⊢
              exact renderOpt_eq _ _ _ _ h
            · simp only [ht] at h ⊢
              exact hnext _ h
          | raise e => rfl
          | ret v => rfl
          | oom => rfl


/-- the whole block: push the cache frame, loop from cell 0, pop -/
theorem iBlock_eq (env : Env) (fuel : Nat) (conds : List (Src × List Blk)) (els : Option (List Blk)) (st : St)
    (h : notOom (condLoop env fuel conds els { st with stack := .dict [] :: st.stack }).1) :
    iBlockGen env fuel (encodeI conds els) st =
      ((condLoop env fuel conds els { st with stack := .dict [] :: st.stack }).1,
       { (condLoop env fuel conds els { st with stack := .dict [] :: st.stack }).2 with
         stack := (condLoop env fuel conds els { st with stack := .dict [] :: st.stack }).2.stack.drop 1 }) := by
  have := iLoop_spec env els fuel conds [] { st with stack := .dict [] :: st.stack } h
  simp only [List.nil_append, List.length_nil] at this
  simp only [iBlockGen, this]

/-! ### the `'v'` branch -/

theorem esc_id_of_plain : ∀ (s : Text), (s.contains '&' || s.contains '<' || s.contains '>' || s.contains '"' || s.contains '\'') = false →
    s.flatMap escChar = s := by
  intro s
  induction s with
  | nil => intro _; rfl
  | cons c t ih =>
    intro h
    simp only [List.contains_cons, Bool.or_eq_false_iff, beq_eq_false_iff_ne, ne_eq] at h
    obtain ⟨⟨⟨⟨⟨h1, h1'⟩, ⟨h2, h2'⟩⟩, ⟨h3, h3'⟩⟩, ⟨h4, h4'⟩⟩, ⟨h5, h5'⟩⟩ := h
    have iht := ih (by rw [h1', h2', h3', h4', h5']; rfl)
    have hc : escChar c = [c] := by
      simp only [escChar]
      rw [if_neg (fun e => h1 e.symm), if_neg (fun e => h2 e.symm), if_neg (fun e => h3 e.symm),
        if_neg (fun e => h4 e.symm), if_neg (fun e => h5 e.symm)]
    simp [List.flatMap_cons, hc, iht]

/-- the `'v'` branch of the source is the simple dtml-var of the model (which always escapes: the fast path of the source
is sound because text without the five characters is its own escaping) -/
theorem vBlock_eq (env : Env) (fuel : Nat) (src : Src) (hq : Bool) (st : St) :
    vBlockGen env fuel src hq st = fetchVar env (fuel + 2) src hq none st := by
  have key : ∀ (rr : Res Val × St),
      (match rr with
        | (.ok v, st') =>
          let t : Piece := pieceOfVal v
          if hq then
            let skip : Bool := match t with
              | .text s => if (s.contains '&' || s.contains '<' || s.contains '>' || s.contains '"' || s.contains '\'') then false else true
              | .bytes _ => false
            if !skip then
              (match htmlQuote env t with
               | .ok p => (Res.ok (if pieceEmpty p then [] else [p]), st')
               | .raise e => (.raise e, st')
               | _ => (.oom, st'))
            else (.ok (if pieceEmpty t then [] else [t]), st')
          else (.ok (if pieceEmpty t then [] else [t]), st')
        | (.raise e, st') => (.raise e, st')
        | (.ret v, st') => (.ret v, st')
        | (.oom, st') => (.oom, st')) =
      (match rr with
        | (.ok v, st') => insertVal env hq none v st'
        | (.raise e, st') => (.raise e, st')
        | (.ret v, st') => (.ret v, st')
        | (.oom, st') => (.oom, st')) := by
    intro rr
    obtain ⟨r, st'⟩ := rr
    cases r with
    | ok v =>
      simp only [insertVal, Option.isSome_none, Bool.false_and, Bool.false_eq_true, if_false]
      cases hq with
      | false => simp
      | true =>
        simp only [if_true]
        cases hp : pieceOfVal v with
        | bytes b =>
          simp only [Bool.not_false, if_true]
          cases htmlQuote env (Piece.bytes b) <;> rfl
        | text s =>
          simp only
          by_cases hs : (s.contains '&' || s.contains '<' || s.contains '>' || s.contains '"' || s.contains '\'') = true
          · simp only [hs, if_true, Bool.not_false]
            cases htmlQuote env (Piece.text s) <;> rfl
          · have hs' : (s.contains '&' || s.contains '<' || s.contains '>' || s.contains '"' || s.contains '\'') = false := by
              simpa using hs
            simp only [hs', Bool.false_eq_true, if_false, Bool.not_true, htmlQuote, esc_id_of_plain s hs']
    | raise e => rfl
    | ret v => rfl
    | oom => rfl
  cases src with
  | name n => exact key (getitem env fuel n true st)
  | expr e => exact key (evalExpr env fuel e st)

end DTML.Lemmas.IBlock
