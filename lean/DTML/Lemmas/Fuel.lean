/-
Fuel monotonicity of the interpreter model (DTML/Render.lean): giving an evaluation more fuel
never changes a result that was not "out of fuel".  Hence the fuel-indexed functions define a
deterministic big-step semantics: `Evaluates` below does not depend on the fuel chosen.
-/
import DTML.Render
set_option linter.unusedVariables false
namespace DTML.Lemmas.Fuel
open DTML.Render

/-- `a` is out of fuel, or `a` and `b` are the same outcome -/
def Le {α : Type} (a b : Res α × St) : Prop := a.1 = .oom ∨ a = b

theorem Le.refl {α : Type} (a : Res α × St) : Le a a := Or.inr rfl
theorem Le.oom {α : Type} (s : St) (b : Res α × St) : Le ((.oom : Res α), s) b := Or.inl rfl

/-- the same for `raiseClass`, whose "out of fuel" is `none` -/
def LeO (a b : Option Text × St) : Prop := a.1 = none ∨ a = b

structure Mono (env : Env) (n : Nat) : Prop where
  getitem : ∀ key call st, Le (getitem env n key call st) (getitem env (n + 1) key call st)
  callSub : ∀ id st, Le (callSub env n id st) (callSub env (n + 1) id st)
  evalExpr : ∀ e st, Le (evalExpr env n e st) (evalExpr env (n + 1) e st)
  evalSrc : ∀ s st, Le (evalSrc env n s st) (evalSrc env (n + 1) s st)
  fetchVar : ∀ s hq null st, Le (fetchVar env n s hq null st) (fetchVar env (n + 1) s hq null st)
  renderBlocks : ∀ bs st, Le (renderBlocks env n bs st) (renderBlocks env (n + 1) bs st)
  withFrame : ∀ f body st, Le (withFrame env n f body st) (withFrame env (n + 1) f body st)
  renderJoined : ∀ body st, Le (renderJoined env n body st) (renderJoined env (n + 1) body st)
  framed : ∀ f body st, Le (framed env n f body st) (framed env (n + 1) f body st)
  condLoop : ∀ cs els st, Le (condLoop env n cs els st) (condLoop env (n + 1) cs els st)
  inIter : ∀ sv o body i st, Le (inIter env n sv o body i st) (inIter env (n + 1) sv o body i st)
  inLoop : ∀ sv o body i st, Le (inLoop env n sv o body i st) (inLoop env (n + 1) sv o body i st)
  inLoopB : ∀ sv o w body i st, Le (inLoopB env n sv o w body i st) (inLoopB env (n + 1) sv o w body i st)
  inBatch : ∀ sv o bp w body els cache st, Le (inBatch env n sv o bp w body els cache st) (inBatch env (n + 1) sv o bp w body els cache st)
  resolveNames : ∀ names bp bad st, Le (resolveNames env n names bp bad st) (resolveNames env (n + 1) names bp bad st)
  evalSortKey : ∀ x st, Le (evalSortKey env n x st) (evalSortKey env (n + 1) x st)
  evalReverse : ∀ x st, Le (evalReverse env n x st) (evalReverse env (n + 1) x st)
  raiseClass : ∀ cls e st, LeO (raiseClass env n cls e st) (raiseClass env (n + 1) cls e st)
  renderBlk : ∀ b st, Le (renderBlk env n b st) (renderBlk env (n + 1) b st)
  letLoop : ∀ binds body st, Le (letLoop env n binds body st) (letLoop env (n + 1) binds body st)

theorem mono_zero (env : Env) : Mono env 0 where
  getitem := fun key call st => by unfold Render.getitem; exact Or.inl rfl
  callSub := fun id st => by rw [show Render.callSub env 0 id st = (.oom, st) by unfold Render.callSub; rfl]; exact Or.inl rfl
  evalExpr := fun e st => by rw [show Render.evalExpr env 0 e st = (.oom, st) by unfold Render.evalExpr; rfl]; exact Or.inl rfl
  evalSrc := fun s st => by rw [show Render.evalSrc env 0 s st = (.oom, st) by unfold Render.evalSrc; rfl]; exact Or.inl rfl
  fetchVar := fun s hq null st => by rw [show Render.fetchVar env 0 s hq null st = (.oom, st) by unfold Render.fetchVar; rfl]; exact Or.inl rfl
  renderBlocks := fun bs st => by rw [show Render.renderBlocks env 0 bs st = (.oom, st) by unfold Render.renderBlocks; rfl]; exact Or.inl rfl
  withFrame := fun f body st => by rw [show Render.withFrame env 0 f body st = (.oom, st) by unfold Render.withFrame; rfl]; exact Or.inl rfl
  renderJoined := fun body st => by rw [show Render.renderJoined env 0 body st = (.oom, st) by unfold Render.renderJoined; rfl]; exact Or.inl rfl
  framed := fun f body st => by rw [show Render.framed env 0 f body st = (.oom, st) by unfold Render.framed; rfl]; exact Or.inl rfl
  condLoop := fun cs els st => by rw [show Render.condLoop env 0 cs els st = (.oom, st) by unfold Render.condLoop; rfl]; exact Or.inl rfl
  inIter := fun sv o body i st => by rw [show Render.inIter env 0 sv o body i st = (.oom, st) by unfold Render.inIter; rfl]; exact Or.inl rfl
  inLoop := fun sv o body i st => by rw [show Render.inLoop env 0 sv o body i st = (.oom, st) by unfold Render.inLoop; rfl]; exact Or.inl rfl
  inLoopB := fun sv o w body i st => by rw [show Render.inLoopB env 0 sv o w body i st = (.oom, st) by unfold Render.inLoopB; rfl]; exact Or.inl rfl
  inBatch := fun sv o bp w body els cache st => by rw [show Render.inBatch env 0 sv o bp w body els cache st = (.oom, st) by unfold Render.inBatch; rfl]; exact Or.inl rfl
  resolveNames := fun names bp bad st => by rw [show Render.resolveNames env 0 names bp bad st = (.oom, st) by unfold Render.resolveNames; rfl]; exact Or.inl rfl
  evalSortKey := fun x st => by rw [show Render.evalSortKey env 0 x st = (.oom, st) by unfold Render.evalSortKey; rfl]; exact Or.inl rfl
  evalReverse := fun x st => by rw [show Render.evalReverse env 0 x st = (.oom, st) by unfold Render.evalReverse; rfl]; exact Or.inl rfl
  raiseClass := fun cls e st => by rw [show Render.raiseClass env 0 cls e st = (none, st) by unfold Render.raiseClass; rfl]; exact Or.inl rfl
  renderBlk := fun b st => by rw [show Render.renderBlk env 0 b st = (.oom, st) by unfold Render.renderBlk; rfl]; exact Or.inl rfl
  letLoop := fun binds body st => by rw [show Render.letLoop env 0 binds body st = (.oom, st) by unfold Render.letLoop; rfl]; exact Or.inl rfl


/-- first projection of an out-of-fuel pair -/
theorem oom_of {α : Type} {x : Res α × St} (h : x.1 = .oom) : ∃ s, x = (.oom, s) := by
  obtain ⟨r, s⟩ := x
  simp only at h
  subst h
  exact ⟨s, rfl⟩

theorem evalSrc_step (env : Env) (n : Nat) (ih : Mono env n) (s : Src) (st : St) :
    Le (evalSrc env (n + 1) s st) (evalSrc env (n + 2) s st) := by
  cases s with
  | name k => simp only [evalSrc]; exact ih.getitem _ _ _
  | expr e => simp only [evalSrc]; exact ih.evalExpr _ _

theorem fetchVar_step (env : Env) (n : Nat) (ih : Mono env n) (s : Src) (hq : Bool) (null : Option Text) (st : St) :
    Le (fetchVar env (n + 1) s hq null st) (fetchVar env (n + 2) s hq null st) := by
  simp only [fetchVar]
  rcases ih.evalSrc s st with h | h
  · obtain ⟨s', hs⟩ := oom_of h
    rw [hs]; exact Or.inl rfl
  · rw [← h]; exact Le.refl _

theorem renderBlocks_step (env : Env) (n : Nat) (ih : Mono env n) (bs : List Blk) (st : St) :
    Le (renderBlocks env (n + 1) bs st) (renderBlocks env (n + 2) bs st) := by
  cases bs with
  | nil => simp only [renderBlocks]; exact Le.refl _
  | cons b rest =>
    simp only [renderBlocks]
    rcases ih.renderBlk b st with h | h
    · obtain ⟨s', hs⟩ := oom_of h
      rw [hs]; exact Or.inl rfl
    · rw [← h]
      generalize renderBlk env n b st = x
      obtain ⟨r, st1⟩ := x
      cases r with
      | ok ps =>
        simp only
        rcases ih.renderBlocks rest st1 with h2 | h2
        · obtain ⟨s', hs⟩ := oom_of h2
          rw [hs]; exact Or.inl rfl
        · rw [← h2]; exact Le.refl _
      | raise e => exact Le.refl _
      | ret v => exact Le.refl _
      | oom => exact Le.refl _

theorem withFrame_step (env : Env) (n : Nat) (ih : Mono env n) (f : Frame) (body : List Blk) (st : St) :
    Le (withFrame env (n + 1) f body st) (withFrame env (n + 2) f body st) := by
  simp only [withFrame]
  rcases ih.renderBlocks body { st with stack := f :: st.stack } with h | h
  · obtain ⟨s', hs⟩ := oom_of h
    rw [hs]; exact Or.inl rfl
  · rw [← h]; exact Le.refl _

theorem joinRes_oom (env : Env) (st : St) : (joinRes env (.oom : Res (List Piece)) st).1 = .oom := rfl

theorem renderJoined_step (env : Env) (n : Nat) (ih : Mono env n) (body : List Blk) (st : St) :
    Le (renderJoined env (n + 1) body st) (renderJoined env (n + 2) body st) := by
  simp only [renderJoined]
  rcases ih.renderBlocks body st with h | h
  · obtain ⟨s', hs⟩ := oom_of h
    rw [hs]; exact Or.inl rfl
  · rw [← h]; exact Le.refl _

theorem framed_step (env : Env) (n : Nat) (ih : Mono env n) (f : Frame) (body : List Blk) (st : St) :
    Le (framed env (n + 1) f body st) (framed env (n + 2) f body st) := by
  simp only [framed]
  rcases ih.withFrame f body st with h | h
  · obtain ⟨s', hs⟩ := oom_of h
    rw [hs]; exact Or.inl rfl
  · rw [← h]; exact Le.refl _


/-- close the branch in which an inner call ran out of fuel: then so did the outer one -/
macro "oom_case" h:ident : tactic =>
  `(tactic| (obtain ⟨s', hs⟩ := oom_of $h; rw [hs]; exact Or.inl rfl))

theorem getitem_step (env : Env) (n : Nat) (ih : Mono env n) (key : Text) (call : Bool) (st : St) :
    Le (getitem env (n + 1) key call st) (getitem env (n + 2) key call st) := by
  simp only [getitem]
  generalize lookupStack env st.stack key st.trace = lk
  obtain ⟨l, tr⟩ := lk
  cases l with
  | missing => exact Le.refl _
  | raise e => exact Le.refl _
  | val v stack' =>
    simp only
    cases call with
    | false => exact Le.refl _
    | true =>
      simp only [if_true]
      cases v with
      | tmpl id => exact ih.callSub _ _
      | _ => exact Le.refl _

theorem callSub_step (env : Env) (n : Nat) (ih : Mono env n) (id : Nat) (st : St) :
    Le (callSub env (n + 1) id st) (callSub env (n + 2) id st) := by
  simp only [callSub]
  cases env.templates[id]? with
  | none => exact Le.refl _
  | some t =>
    simp only
    split
    · exact Le.refl _
    · rcases ih.renderBlocks t.blocks _ with h | h
      · oom_case h
      · rw [← h]; exact Le.refl _

theorem evalExpr_step (env : Env) (n : Nat) (ih : Mono env n) (e : Expr) (st : St) :
    Le (evalExpr env (n + 1) e st) (evalExpr env (n + 2) e st) := by
  cases e with
  | lit v => rw [evalExpr, evalExpr]; exact Le.refl _
  | name k =>
    rw [evalExpr, evalExpr]
    rcases ih.getitem k false st with h | h
    · oom_case h
    · rw [← h]; exact Le.refl _
  | under k => rw [evalExpr, evalExpr]; exact ih.getitem _ _ _
  | not a =>
    rw [evalExpr, evalExpr]
    rcases ih.evalExpr a st with h | h
    · oom_case h
    · rw [← h]; exact Le.refl _
  | eq a b =>
    rw [evalExpr, evalExpr]
    rcases ih.evalExpr a st with h | h
    · oom_case h
    · rw [← h]
      generalize evalExpr env n a st = x
      obtain ⟨r, st'⟩ := x
      cases r with
      | ok va =>
        simp only
        rcases ih.evalExpr b st' with h2 | h2
        · oom_case h2
        · rw [← h2]; exact Le.refl _
      | raise e => exact Le.refl _
      | ret v => exact Le.refl _
      | oom => exact Le.refl _
  | call f =>
    rw [evalExpr, evalExpr]
    rcases ih.evalExpr f st with h | h
    · oom_case h
    · rw [← h]; exact Le.refl _
  | attr a name =>
    rw [evalExpr, evalExpr]
    rcases ih.evalExpr a st with h | h
    · oom_case h
    · rw [← h]; exact Le.refl _
  | item a k =>
    rw [evalExpr, evalExpr]
    rcases ih.evalExpr a st with h | h
    · oom_case h
    · rw [← h]; exact Le.refl _


theorem condLoop_step (env : Env) (n : Nat) (ih : Mono env n) (cs : List (Src × List Blk)) (els : Option (List Blk)) (st : St) :
    Le (condLoop env (n + 1) cs els st) (condLoop env (n + 2) cs els st) := by
  cases cs with
  | nil =>
    simp only [condLoop]
    cases els with
    | none => exact Le.refl _
    | some b => exact ih.renderBlocks _ _
  | cons c rest =>
    obtain ⟨src, body⟩ := c
    simp only [condLoop]
    have hdec : ∀ (v : Val) (s : St),
        Le (if truthy v = true then renderBlocks env n body s else condLoop env n rest els s)
           (if truthy v = true then renderBlocks env (n + 1) body s else condLoop env (n + 1) rest els s) := by
      intro v s
      split
      · exact ih.renderBlocks _ _
      · exact ih.condLoop _ _ _
    cases src with
    | name k =>
      simp only
      rcases ih.getitem k true st with h | h
      · oom_case h
      · rw [← h]
        generalize getitem env n k true st = x
        obtain ⟨r, st'⟩ := x
        cases r with
        | ok v => exact hdec _ _
        | raise e =>
          simp only
          split
          · exact hdec _ _
          · exact Le.refl _
        | ret v => exact Le.refl _
        | oom => exact Le.refl _
    | expr e =>
      simp only
      rcases ih.evalExpr e st with h | h
      · oom_case h
      · rw [← h]
        generalize evalExpr env n e st = x
        obtain ⟨r, st'⟩ := x
        cases r with
        | ok v => exact hdec _ _
        | raise e => exact Le.refl _
        | ret v => exact Le.refl _
        | oom => exact Le.refl _

theorem inIter_step (env : Env) (n : Nat) (ih : Mono env n) (sv : SeqVars) (o : InOpts) (body : List Blk) (i : Nat) (st : St) :
    Le (inIter env (n + 1) sv o body i st) (inIter env (n + 2) sv o body i st) := by
  rw [inIter, inIter]
  have key : ∀ (isStr : Bool), Le
      (if o.noPush = true then renderJoined env n body st
       else if o.mapping = true then
         framed env n (match seqItem sv i with | .dict kvs => Frame.dict kvs | _ => Frame.bad) body st
       else if isStr = true then renderJoined env n body st
       else framed env n (.inst (seqItem sv i) []) body st)
      (if o.noPush = true then renderJoined env (n + 1) body st
       else if o.mapping = true then
         framed env (n + 1) (match seqItem sv i with | .dict kvs => Frame.dict kvs | _ => Frame.bad) body st
       else if isStr = true then renderJoined env (n + 1) body st
       else framed env (n + 1) (.inst (seqItem sv i) []) body st) := by
    intro isStr
    split
    · exact ih.renderJoined _ _
    · split
      · exact ih.framed _ _ _
      · split
        · exact ih.renderJoined _ _
        · exact ih.framed _ _ _
  exact key _

/-- the part of the loop after the item guard: render element `i`, then go on -/
theorem loopTail (env : Env) (n : Nat) (ih : Mono env n) (sv' : SeqVars) (o : InOpts) (body : List Blk) (i : Nat) (st1 : St) :
    Le (match inIter env n sv' o body i st1 with
        | (.ok p, st2) =>
          (match inLoop env n sv' o body (i + 1) st2 with
           | (.ok ps, st3) => ((.ok (p :: ps) : Res (List Piece)), st3)
           | r => r)
        | (.raise e, st2) => (.raise e, st2)
        | (.ret v, st2) => (.ret v, st2)
        | (.oom, st2) => (.oom, st2))
       (match inIter env (n + 1) sv' o body i st1 with
        | (.ok p, st2) =>
          (match inLoop env (n + 1) sv' o body (i + 1) st2 with
           | (.ok ps, st3) => ((.ok (p :: ps) : Res (List Piece)), st3)
           | r => r)
        | (.raise e, st2) => (.raise e, st2)
        | (.ret v, st2) => (.ret v, st2)
        | (.oom, st2) => (.oom, st2)) := by
  rcases ih.inIter sv' o body i st1 with h | h
  · oom_case h
  · rw [← h]
    generalize inIter env n sv' o body i st1 = x
    obtain ⟨r, st2⟩ := x
    cases r with
    | ok p =>
      simp only
      rcases ih.inLoop sv' o body (i + 1) st2 with h2 | h2
      · oom_case h2
      · rw [← h2]; exact Le.refl _
    | raise e => exact Le.refl _
    | ret v => exact Le.refl _
    | oom => exact Le.refl _

theorem inLoop_step (env : Env) (n : Nat) (ih : Mono env n) (sv : SeqVars) (o : InOpts) (body : List Blk) (i : Nat) (st : St) :
    Le (inLoop env (n + 1) sv o body i st) (inLoop env (n + 2) sv o body i st) := by
  rw [inLoop, inLoop]
  split
  · exact Le.refl _
  · generalize (if env.guardOn = true then { st with trace := st.trace ++ [Event.gitem 0 ↑i] } else st) = st0
    simp only
    split
    · split
      · exact ih.inLoop _ _ _ _ _
      · exact Le.refl _
    · exact loopTail env n ih _ o body i _

/-- the same for a batched loop: render element `i`, then go on with the updated variables -/
theorem loopTailB (env : Env) (n : Nat) (ih : Mono env n) (sv' sv'' : SeqVars) (o : InOpts) (w : BWin) (body : List Blk)
    (i : Nat) (st1 : St) :
    Le (match inIter env n sv' o body i st1 with
        | (.ok p, st2) =>
          (match inLoopB env n sv'' o w body (i + 1) st2 with
           | (.ok ps, st3) => ((.ok (p :: ps) : Res (List Piece)), st3)
           | r => r)
        | (.raise e, st2) => (.raise e, st2)
        | (.ret v, st2) => (.ret v, st2)
        | (.oom, st2) => (.oom, st2))
       (match inIter env (n + 1) sv' o body i st1 with
        | (.ok p, st2) =>
          (match inLoopB env (n + 1) sv'' o w body (i + 1) st2 with
           | (.ok ps, st3) => ((.ok (p :: ps) : Res (List Piece)), st3)
           | r => r)
        | (.raise e, st2) => (.raise e, st2)
        | (.ret v, st2) => (.ret v, st2)
        | (.oom, st2) => (.oom, st2)) := by
  rcases ih.inIter sv' o body i st1 with h | h
  · oom_case h
  · rw [← h]
    generalize inIter env n sv' o body i st1 = x
    obtain ⟨r, st2⟩ := x
    cases r with
    | ok p =>
      simp only
      rcases ih.inLoopB sv'' o w body (i + 1) st2 with h2 | h2
      · oom_case h2
      · rw [← h2]; exact Le.refl _
    | raise e => exact Le.refl _
    | ret v => exact Le.refl _
    | oom => exact Le.refl _

theorem inLoopB_step (env : Env) (n : Nat) (ih : Mono env n) (sv : SeqVars) (o : InOpts) (w : BWin) (body : List Blk)
    (i : Nat) (st : St) :
    Le (inLoopB env (n + 1) sv o w body i st) (inLoopB env (n + 2) sv o w body i st) := by
  rw [inLoopB, inLoopB]
  split
  · exact Le.refl _
  · generalize (if env.guardOn = true then { st with trace := st.trace ++ [Event.gitem 0 ↑i] } else st) = st0
    simp only
    split
    · split
      · exact ih.inLoopB _ _ _ _ _ _
      · exact Le.refl _
    · exact loopTailB env n ih _ _ o w body i _

/-- the result of a batched rendering follows the result of its inner rendering -/
theorem dropRes_le {a b : Res Piece × St} (k : Nat) (h : Le a b) :
    Le (a.1, { a.2 with stack := a.2.stack.drop k }) (b.1, { b.2 with stack := b.2.stack.drop k }) := by
  rcases h with h | h
  · exact Or.inl h
  · rw [h]; exact Le.refl _

theorem inBatch_step (env : Env) (n : Nat) (ih : Mono env n) (sv0 : SeqVars) (o : InOpts) (bp : BatchP) (w : BWin)
    (body : List Blk) (els : Option (List Blk)) (cache : List Frame) (st : St) :
    Le (inBatch env (n + 1) sv0 o bp w body els cache st) (inBatch env (n + 2) sv0 o bp w body els cache st) := by
  unfold inBatch
  dsimp only
  apply dropRes_le
  split
  · split
    · exact ih.renderJoined _ _
    · cases els with
      | some e => exact ih.renderJoined _ _
      | none => exact Le.refl _
  · split
    · split
      · exact ih.renderJoined _ _
      · cases els with
        | some e => exact ih.renderJoined _ _
        | none => exact Le.refl _
    · rcases ih.inLoopB sv0 o w body w.first { st with stack := (Frame.seq sv0 :: cache) ++ st.stack } with h | h
      · oom_case h
      · rw [← h]; exact Le.refl _

theorem resolveNames_step (env : Env) (n : Nat) (ih : Mono env n) (names : List (Text × Text)) (bp : BatchP) (bad : Bool) (st : St) :
    Le (resolveNames env (n + 1) names bp bad st) (resolveNames env (n + 2) names bp bad st) := by
  cases names with
  | nil => unfold resolveNames; exact Le.refl _
  | cons pn rest =>
    obtain ⟨p, nm⟩ := pn
    unfold resolveNames
    dsimp only
    rcases ih.getitem nm true st with h | h
    · oom_case h
    · rw [← h]
      generalize getitem env n nm true st = x
      obtain ⟨r, st'⟩ := x
      cases r with
      | ok v =>
        dsimp only
        cases paramInt v with
        | ok i => exact ih.resolveNames _ _ _ _
        | bad => exact ih.resolveNames _ _ _ _
        | valueError =>
          dsimp only
          split
          · exact ih.resolveNames _ _ _ _
          · exact Le.refl _
      | raise e =>
        dsimp only
        split
        · exact ih.resolveNames _ _ _ _
        · exact Le.refl _
      | ret v =>
        dsimp only
        split
        · exact ih.resolveNames _ _ _ _
        · exact Le.refl _
      | oom => exact Le.refl _

theorem evalSortKey_step (env : Env) (n : Nat) (ih : Mono env n) (x : InXOpts) (st : St) :
    Le (evalSortKey env (n + 1) x st) (evalSortKey env (n + 2) x st) := by
  unfold evalSortKey
  cases x.sortExpr with
  | none => exact Le.refl _
  | some e =>
    dsimp only
    rcases ih.evalExpr e st with h | h
    · oom_case h
    · rw [← h]; exact Le.refl _

theorem evalReverse_step (env : Env) (n : Nat) (ih : Mono env n) (x : InXOpts) (st : St) :
    Le (evalReverse env (n + 1) x st) (evalReverse env (n + 2) x st) := by
  unfold evalReverse
  cases x.reverseExpr with
  | none => exact Le.refl _
  | some e =>
    dsimp only
    rcases ih.evalExpr e st with h | h
    · oom_case h
    · rw [← h]; exact Le.refl _

theorem raiseClass_step (env : Env) (n : Nat) (ih : Mono env n) (cls : Text) (e : Option Expr) (st : St) :
    LeO (raiseClass env (n + 1) cls e st) (raiseClass env (n + 2) cls e st) := by
  simp only [raiseClass]
  cases e with
  | none => exact Or.inr rfl
  | some e =>
    simp only
    rcases ih.evalExpr e st with h | h
    · obtain ⟨s', hs⟩ := oom_of h
      rw [hs]; exact Or.inl rfl
    · rw [← h]; exact Or.inr rfl

theorem letLoop_step (env : Env) (n : Nat) (ih : Mono env n) (binds : List (Text × Src)) (body : List Blk) (st : St) :
    Le (letLoop env (n + 1) binds body st) (letLoop env (n + 2) binds body st) := by
  cases binds with
  | nil =>
    rw [letLoop, letLoop]
    rcases ih.renderJoined body st with h | h
    · oom_case h
    · rw [← h]; exact Le.refl _
  | cons b rest =>
    obtain ⟨k, src⟩ := b
    rw [letLoop, letLoop]
    rcases ih.evalSrc src st with h | h
    · oom_case h
    · rw [← h]
      generalize evalSrc env n src st = x
      obtain ⟨r, st'⟩ := x
      cases r with
      | ok v => exact ih.letLoop _ _ _
      | raise e => exact Le.refl _
      | ret v => exact Le.refl _
      | oom => exact Le.refl _


theorem oneRes_le {a b : Res Piece × St} (h : Le a b) : Le (oneRes a) (oneRes b) := by
  rcases h with h | h
  · obtain ⟨s, hs⟩ := oom_of h
    rw [hs]; exact Or.inl rfl
  · rw [h]; exact Le.refl _

theorem renderBlk_step (env : Env) (n : Nat) (ih : Mono env n) (b : Blk) (st : St) :
    Le (renderBlk env (n + 1) b st) (renderBlk env (n + 2) b st) := by
  cases b with
  | lit s => unfold renderBlk; exact Le.refl _
  | comment => unfold renderBlk; exact Le.refl _
  | var src hq missing null =>
    unfold renderBlk
    try simp only
    cases src with
    | expr e => exact ih.fetchVar _ _ _ _
    | name k =>
      simp only
      split
      · generalize lookupStack env st.stack k st.trace = lk
        obtain ⟨l, tr⟩ := lk
        cases l with
        | missing => exact Le.refl _
        | raise e => exact Le.refl _
        | val v stack' => exact ih.fetchVar _ _ _ _
      · exact ih.fetchVar _ _ _ _
  | call src =>
    unfold renderBlk
    try simp only
    rcases ih.condLoop [(src, [])] none { st with stack := .dict [] :: st.stack } with h | h
    · oom_case h
    · rw [← h]; exact Le.refl _
  | cond conds els =>
    unfold renderBlk
    try simp only
    rcases ih.condLoop conds els { st with stack := .dict [] :: st.stack } with h | h
    · oom_case h
    · rw [← h]; exact Le.refl _
  | unless_ src body =>
    unfold renderBlk
    try simp only
    rcases ih.condLoop [(src, [])] (some body) { st with stack := .dict [] :: st.stack } with h | h
    · oom_case h
    · rw [← h]; exact Le.refl _
  | let_ binds body =>
    unfold renderBlk
    try simp only
    rcases ih.letLoop binds body { st with stack := .dict [] :: st.stack } with h | h
    · oom_case h
    · rw [← h]; exact Le.refl _
  | ret src =>
    unfold renderBlk
    try simp only
    rcases ih.evalSrc src st with h | h
    · oom_case h
    · rw [← h]; exact Le.refl _
  | raise_ cls clsExpr body =>
    unfold renderBlk
    try simp only
    rcases ih.raiseClass cls clsExpr st with h | h
    · generalize raiseClass env n cls clsExpr st = rc at h ⊢
      obtain ⟨c, s0⟩ := rc
      simp only at h
      subst h
      exact Or.inl rfl
    · rw [← h]
      generalize raiseClass env n cls clsExpr st = rc
      obtain ⟨c, st0⟩ := rc
      cases c with
      | none => exact Le.refl _
      | some cn =>
        simp only
        rcases ih.renderJoined body st0 with h2 | h2
        · oom_case h2
        · rw [← h2]; exact Le.refl _
  | tryFin body fin =>
    unfold renderBlk
    try simp only
    rcases ih.renderJoined body st with h | h
    · oom_case h
    · rw [← h]
      generalize renderJoined env n body st = x
      obtain ⟨r, st1⟩ := x
      cases r with
      | oom => exact Le.refl _
      | ok p =>
        simp only
        rcases ih.renderJoined fin st1 with h2 | h2
        · oom_case h2
        · rw [← h2]; exact Le.refl _
      | raise e =>
        simp only
        rcases ih.renderJoined fin st1 with h2 | h2
        · oom_case h2
        · rw [← h2]; exact Le.refl _
      | ret v =>
        simp only
        rcases ih.renderJoined fin st1 with h2 | h2
        · oom_case h2
        · rw [← h2]; exact Le.refl _
  | try_ body handlers els =>
    unfold renderBlk
    try simp only
    rcases ih.renderJoined body st with h | h
    · oom_case h
    · rw [← h]
      generalize renderJoined env n body st = x
      obtain ⟨r, st1⟩ := x
      cases r with
      | oom => exact Le.refl _
      | ret v => exact Le.refl _
      | ok p =>
        simp only
        cases els with
        | none => exact Le.refl _
        | some e =>
          simp only
          rcases ih.renderJoined e st1 with h2 | h2
          · oom_case h2
          · rw [← h2]; exact Le.refl _
      | raise ex =>
        simp only
        cases findHandler env handlers ex.cls with
        | none => exact Le.refl _
        | some hb => exact oneRes_le (ih.framed _ _ _)
  | with_ src mapping only body =>
    unfold renderBlk
    try simp only
    rcases ih.evalSrc src st with h | h
    · oom_case h
    · rw [← h]
      generalize evalSrc env n src st = x
      obtain ⟨r, st'⟩ := x
      cases r with
      | oom => exact Le.refl _
      | ret v => exact Le.refl _
      | raise e => exact Le.refl _
      | ok v =>
        simp only
        split
        · -- only: the body runs on a fresh namespace
          rcases ih.renderJoined body { st' with stack := [_], level := 0 } with h2 | h2
          · oom_case h2
          · rw [← h2]; exact Le.refl _
        · exact oneRes_le (ih.framed _ _ _)
  | in_ src o body els =>
    unfold renderBlk
    try simp only
    rcases ih.evalSrc src st with h | h
    · oom_case h
    · rw [← h]
      generalize evalSrc env n src st = x
      obtain ⟨r, st'⟩ := x
      cases r with
      | oom => exact Le.refl _
      | ret v => exact Le.refl _
      | raise e => exact Le.refl _
      | ok v =>
        simp only
        split
        · exact Le.refl _
        · split
          · exact oneRes_le (ih.renderJoined _ _)
          · exact Le.refl _
        · rename_i xs _ _
          rcases ih.inLoop { items := xs, mapping := o.mapping, prefix_ := o.prefix_ } o body 0 _ with h2 | h2
          · oom_case h2
          · rw [← h2]; exact Le.refl _

  | inx_ src o x body els =>
    unfold renderBlk
    try simp only
    rcases ih.evalSrc src st with h | h
    · oom_case h
    · rw [← h]
      generalize evalSrc env n src st = x'
      obtain ⟨r, st'⟩ := x'
      cases r with
      | oom => exact Le.refl _
      | ret v => exact Le.refl _
      | raise e => exact Le.refl _
      | ok v =>
        simp only
        split
        · exact Le.refl _
        · split
          · exact oneRes_le (ih.renderJoined _ _)
          · exact Le.refl _
        · rename_i xs _ _
          rcases ih.evalSortKey x st' with hk | hk
          · oom_case hk
          · rw [← hk]
            generalize evalSortKey env n x st' = rk
            obtain ⟨k1, sA⟩ := rk
            cases k1 with
            | oom => exact Le.refl _
            | ret v => exact Le.refl _
            | raise e => exact Le.refl _
            | ok key =>
              simp only
              generalize sortPart env o { x with sortKey := key } xs sA = rs
              obtain ⟨s1, sB⟩ := rs
              cases s1 with
              | oom => exact Le.refl _
              | ret v => exact Le.refl _
              | raise e => exact Le.refl _
              | ok sorted =>
                simp only
                rcases ih.evalReverse x sB with hr | hr
                · oom_case hr
                · rw [← hr]
                  generalize evalReverse env n x sB = rr
                  obtain ⟨r1, st1⟩ := rr
                  cases r1 with
                  | oom => exact Le.refl _
                  | ret v => exact Le.refl _
                  | raise e => exact Le.refl _
                  | ok rev =>
                    simp only
                    generalize applyReverse rev sorted = ys
                    cases x.batch with
                    | none =>
                      simp only
                      rcases ih.inLoop { items := ys, mapping := o.mapping, prefix_ := o.prefix_ } o body 0 _ with h2 | h2
                      · oom_case h2
                      · rw [← h2]; exact Le.refl _
                    | some bp0 =>
                      simp only
                      rcases ih.resolveNames x.names bp0 false st1 with hp | hp
                      · oom_case hp
                      · rw [← hp]
                        generalize resolveNames env n x.names bp0 false st1 = rp
                        obtain ⟨p1, sP⟩ := rp
                        cases p1 with
                        | oom => exact Le.refl _
                        | ret v => exact Le.refl _
                        | raise e => exact Le.refl _
                        | ok pb =>
                          obtain ⟨bp, bad⟩ := pb
                          simp only
                          split
                          · exact Le.refl _
                          · rcases ih.getitem (txt "QUERY_STRING") true sP with hq | hq
                            · oom_case hq
                            · rw [← hq]
                              generalize getitem env n (txt "QUERY_STRING") true sP = rq
                              obtain ⟨q, st2⟩ := rq
                              cases q with
                              | oom => exact Le.refl _
                              | ok _ => exact oneRes_le (ih.inBatch _ _ _ _ _ _ _ _)
                              | raise _ => exact oneRes_le (ih.inBatch _ _ _ _ _ _ _ _)
                              | ret _ => exact oneRes_le (ih.inBatch _ _ _ _ _ _ _ _)

/-- **Fuel monotonicity**: for every function of the interpreter and every fuel, one more unit of
fuel gives the same outcome unless the evaluation had run out of fuel -/
theorem mono_all (env : Env) : ∀ n, Mono env n := by
  intro n
  induction n with
  | zero => exact mono_zero env
  | succ n ih =>
    exact {
      getitem := getitem_step env n ih
      callSub := callSub_step env n ih
      evalExpr := evalExpr_step env n ih
      evalSrc := evalSrc_step env n ih
      fetchVar := fetchVar_step env n ih
      renderBlocks := renderBlocks_step env n ih
      withFrame := withFrame_step env n ih
      renderJoined := renderJoined_step env n ih
      framed := framed_step env n ih
      condLoop := condLoop_step env n ih
      inIter := inIter_step env n ih
      inLoop := inLoop_step env n ih
      inLoopB := inLoopB_step env n ih
      inBatch := inBatch_step env n ih
      resolveNames := resolveNames_step env n ih
      evalSortKey := evalSortKey_step env n ih
      evalReverse := evalReverse_step env n ih
      raiseClass := raiseClass_step env n ih
      renderBlk := renderBlk_step env n ih
      letLoop := letLoop_step env n ih }

/-- lifting along any amount of extra fuel -/
theorem lift {α : Type} (f : Nat → Res α × St) (hstep : ∀ n, Le (f n) (f (n + 1))) (n : Nat) (r : Res α) (s : St)
    (h : f n = (r, s)) (hr : r ≠ .oom) : ∀ k, f (n + k) = (r, s) := by
  intro k
  induction k with
  | zero => exact h
  | succ k ih =>
    rcases hstep (n + k) with h1 | h1
    · rw [ih] at h1; exact (hr h1).elim
    · rw [← Nat.add_assoc, ← h1, ih]

theorem renderBlocks_lift (env : Env) (n : Nat) (bs : List Blk) (st : St) (r : Res (List Piece)) (s : St)
    (h : renderBlocks env n bs st = (r, s)) (hr : r ≠ .oom) (m : Nat) (hm : n ≤ m) : renderBlocks env m bs st = (r, s) := by
  obtain ⟨k, rfl⟩ := Nat.exists_eq_add_of_le hm
  exact lift (fun n => renderBlocks env n bs st) (fun n => (mono_all env n).renderBlocks bs st) n r s h hr k

theorem renderBlk_lift (env : Env) (n : Nat) (b : Blk) (st : St) (r : Res (List Piece)) (s : St)
    (h : renderBlk env n b st = (r, s)) (hr : r ≠ .oom) (m : Nat) (hm : n ≤ m) : renderBlk env m b st = (r, s) := by
  obtain ⟨k, rfl⟩ := Nat.exists_eq_add_of_le hm
  exact lift (fun n => renderBlk env n b st) (fun n => (mono_all env n).renderBlk b st) n r s h hr k

/-- **The interpreter is a deterministic big-step semantics**: an outcome that is not "out of fuel"
does not depend on the fuel it was computed with -/
theorem outcome_unique (env : Env) (n m : Nat) (bs : List Blk) (st : St) (r r' : Res (List Piece)) (s s' : St)
    (h : renderBlocks env n bs st = (r, s)) (h' : renderBlocks env m bs st = (r', s'))
    (hr : r ≠ .oom) (hr' : r' ≠ .oom) : r = r' ∧ s = s' := by
  have a := renderBlocks_lift env n bs st r s h hr (max n m) (Nat.le_max_left _ _)
  have b := renderBlocks_lift env m bs st r' s' h' hr' (max n m) (Nat.le_max_right _ _)
  rw [a] at b
  simp only [Prod.mk.injEq] at b
  exact b

end DTML.Lemmas.Fuel
