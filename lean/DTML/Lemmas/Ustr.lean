/-
Helper definitions and lemmas for the obligations about `ustr` / `_exception_str` as translated from the source
(DTML/GenUstr.lean); the theorems are in Props/C19.lean.
-/
import DTML.GenUstr
set_option linter.unusedVariables false
namespace DTML.Lemmas.Ustr
open DTML.Render DTML.GenUstr

/-- a piece of the model as the Python value `ustr` returns -/
def ofPiece : Piece → PyV
  | .text s => .val (.str s)
  | .bytes b => .val (.bytes b)

def isStrOrBytes (v : PyV) : Bool := pyIsinstance v [PyClass.str, PyClass.bytes]

def wrongType : Exc := ⟨"ValueError".toList, "__str__ returned wrong type".toList⟩

/-- **where a conversion may raise `e`**: the value's own `__str__` raises it (`own`), returns something that is neither
str nor bytes (`wrong`), is None on a non-exception object so that the built-in `str()` is asked and raises (`none`); the
value is a class whose `str()` raises - a metaclass of the client's - (`cls`); an exception object whose only argument
misbehaves in one of these ways (`arg`), whose several arguments have a `repr` that raises (`args`), or that has no
`args` and a `str()` that raises (`bare`) -/
inductive Misbehaves (lib : Lib) : PyV → Exc → Prop where
  | own (id : Nat) (e : Exc) (h : lib.callStr id = .raise e) : Misbehaves lib (.inst id) e
  | wrong (id : Nat) (r : PyV) (h : lib.callStr id = .ok r) (hr : isStrOrBytes r = false) :
      Misbehaves lib (.inst id) wrongType
  | none (id : Nat) (e : Exc) (h : lib.str (.noStr id) = .raise e) : Misbehaves lib (.noStr id) e
  | cls (n : Text) (e : Exc) (h : lib.str (.cls n) = .raise e) : Misbehaves lib (.cls n) e
  | tup (xs : List PyV) (e : Exc) (h : lib.str (.tup xs) = .raise e) : Misbehaves lib (.tup xs) e
  | arg (a : PyV) (e : Exc) (h : Misbehaves lib a e) : Misbehaves lib (.excObj [a]) e
  | args (a b : PyV) (t : List PyV) (e : Exc) (h : lib.str (.tup (a :: b :: t)) = .raise e) :
      Misbehaves lib (.excObj (a :: b :: t)) e
  | bare (id : Nat) (e : Exc) (h : lib.str (.excBare id) = .raise e) : Misbehaves lib (.excBare id) e

theorem strRes_raise (r : Res Text) (e : Exc) (h : strRes r = .raise e) : r = .raise e := by
  cases r <;> simp_all [strRes, andThen]

theorem strRes_ret (r : Res Text) (x : Val) (h : strRes r = .ret x) : r = .ret x := by
  cases r <;> simp_all [strRes, andThen]

theorem strRes_oom (r : Res Text) (h : strRes r = .oom) : r = .oom := by
  cases r <;> simp_all [strRes, andThen]

end DTML.Lemmas.Ustr
