/-
Lemmas for the obligations on the translated `HTML.parseTag` / `String.parseTag` / `String._parseTag`
(GenParseTag.lean, regenerated from DT_HTML.py / DT_String.py on every run): the generated definitions are proved equal to
`Parse.tagRole`, the function `buildAux` consumes and the theorems of Props/C06 and Props/C07 are stated about.
-/
import DTML.GenParseTag
set_option linter.unusedVariables false
set_option linter.unusedSimpArgs false
namespace DTML.Lemmas.ParseTag
open DTML.Scan DTML.Parse DTML.GenParseTag

/-- `self.commands[name]` through the regenerated table is the model's `Cmd.ofName`, for every string -/
theorem commandsGet_eq (n : String) : commandsGet n = Cmd.ofName n := by
  unfold commandsGet Cmd.ofName
  split <;> try rfl
  rename_i h1 h2 h3 h4 h5 h6 h7 h8 h9 h10 h11 h12 h13
  have hb : ∀ k : String, (n = k → False) → (n == k) = false := fun k h => by simpa using h
  simp only [DTML.Gen.commands, List.lookup_cons, List.lookup_nil, hb _ h1, hb _ h2, hb _ h3, hb _ h4, hb _ h5, hb _ h6, hb _ h7,
    hb _ h8, hb _ h9, hb _ h10, hb _ h11, hb _ h12, hb _ h13, Option.bind_none]

theorem toList_ofList (l : List Char) : (String.ofList l).toList = l := by simp

/-- `sargs[l:l+1] in ' \\t\\n'`: a substring test on a slice of at most one character -/
theorem subText_one (s : Text) (l : Nat) :
    subText ((s.take (l + 1)).drop l) " \t\n".toList =
      (match (s.drop l).head? with
       | none => true
       | some c => c = ' ' || c = '\t' || c = '\n') := by
  rw [List.drop_take]
  cases h : s.drop l with
  | nil => simp [subText]
  | cons c t => rw [Bool.eq_iff_iff]; simp [subText, List.isPrefixOf, or_assoc]

/-- the test of the `else` special case as the source spells it (slices, `len`, `in`) = `elseMatches` -/
theorem else_test (args sargs : Text) :
    ((args == sargs) || ((args == (sargs.take args.length)) &&
      (subText ((sargs.take (args.length + 1)).drop args.length) " \t\n".toList))) = elseMatches args sargs := by
  unfold elseMatches
  rw [subText_one]
  congr 2
  rw [Bool.eq_iff_iff]
  simp [List.prefix_iff_eq_take]

theorem blockContinuations_eq (c : Cmd) : blockContinuations c = c.continuations.getD [] := by
  cases c <;> rfl

/-- `String._parseTag` hands on what `self.parseTag` returns (the lazily imported class is the command itself) -/
theorem wrapGen_eq (p : Tok → Option Cmd → Text → Except PErr TagRole) (tk : Tok) (c : Option Cmd) (s : Text) :
    wrapGen p tk c s = p tk c s := by
  unfold wrapGen lazyImport
  split <;> simp_all

/-- `HTML.parseTag` as translated = the model's `tagRole .html`; `ctx` = the innermost open block (its command and
start-tag arguments), absent at top level (the defaults `command=None, sargs=''`) -/
theorem html_eq (tk : Tok) (ctx : Option (Cmd × Text)) :
    parseTagHtmlGen tk (ctx.map (·.1)) ((ctx.map (·.2)).getD []) = tagRole .html tk ctx := by
  unfold parseTagHtmlGen tagRole
  simp only [commandsGet_eq, blockContinuations_eq, else_test]
  cases ctx with
  | none =>
    cases tk.isEnd <;> simp
    cases Cmd.ofName (String.ofList tk.name) <;> rfl
  | some p =>
    obtain ⟨c, sargs⟩ := p
    cases tk.isEnd <;> simp
    generalize String.ofList tk.name = name
    generalize pyStrip tk.args = args
    by_cases h1 : name ∈ c.continuations.getD []
    · by_cases h2 : name = "else"
      · subst h2
        have : Cmd.ofName "else" = some .else_ := rfl
        by_cases h3 : args = [] <;> by_cases h4 : elseMatches args sargs = false <;> simp [h1, h3, h4, this]
      · simp [h1, h2]
    · simp only [h1, if_false]
      cases Cmd.ofName name <;> rfl

/-- `String.parseTag` as translated = the model's `tagRole .epfs` -/
theorem epfs_eq (tk : Tok) (ctx : Option (Cmd × Text)) :
    parseTagEpfsGen tk (ctx.map (·.1)) ((ctx.map (·.2)).getD []) = tagRole .epfs tk ctx := by
  unfold parseTagEpfsGen tagRole
  simp only [commandsGet_eq, blockContinuations_eq, else_test]
  have hargs : (if !((if !(tk.args).isEmpty then (pyStrip tk.args) else tk.args)).isEmpty then (if !(tk.args).isEmpty then (pyStrip tk.args) else tk.args) else "".toList) = pyStrip tk.args := by
    cases h : tk.args with
    | nil => simp [pyStrip]
    | cons a t => 
      simp
  simp only [hargs]
  have e1 : "]".toList = [']'] := rfl
  have e2 : "[".toList = ['['] := rfl
  have e3 : "!".toList = ['!'] := rfl
  have e4 : " ".toList = [' '] := rfl
  have hvar : Cmd.ofName "var" = some .var := rfl
  simp only [e1, e2, e3, e4, hvar]
  generalize pyStrip tk.args = args
  by_cases hf1 : tk.fmt = [']']
  · cases ctx with
    | none => simp [hf1]
    | some p => simp [hf1]
  · by_cases hf2 : tk.fmt = ['['] ∨ tk.fmt = ['!']
    · have hf2' : (tk.fmt == ['['] || tk.fmt == ['!']) = true := by simpa using hf2
      have hf2'' : (decide (tk.fmt = ['[']) || decide (tk.fmt = ['!'])) = true := by simpa using hf2
      simp only [hf1, hf2', hf2'', if_false, beq_iff_eq]
      generalize String.ofList tk.name = name
      cases ctx with
      | none =>
        simp
        cases Cmd.ofName name <;> rfl
      | some p =>
        obtain ⟨c, sargs⟩ := p
        simp
        by_cases h1 : name ∈ c.continuations.getD []
        · by_cases h2 : name = "else"
          · subst h2
            have : Cmd.ofName "else" = some .else_ := rfl
            by_cases h3 : args = [] <;> by_cases h4 : elseMatches args sargs = false <;> simp [h1, h3, h4, this]
          · simp [h1, h2]
        · simp only [h1, if_false]
          cases Cmd.ofName name <;> rfl
    · have hf2' : (tk.fmt == ['['] || tk.fmt == ['!']) = false := by simpa using hf2
      have hf2'' : (decide (tk.fmt = ['[']) || decide (tk.fmt = ['!'])) = false := by simpa using hf2
      simp only [hf1, hf2', hf2'', if_true, if_false, beq_iff_eq]
      cases args <;> simp

/-- `self._parseTag(mo, scommand, sa)` of the class of a syntax: `String._parseTag` around the class's own `parseTag` -/
def parseTagGen : Syntax → Tok → Option Cmd → Text → Except PErr TagRole
  | .html => fun tk c s => wrapGen @parseTagHtmlGen tk c s
  | .epfs => fun tk c s => wrapGen @parseTagEpfsGen tk c s

theorem parseTagGen_eq (syn : Syntax) (tk : Tok) (ctx : Option (Cmd × Text)) :
    parseTagGen syn tk (ctx.map (·.1)) ((ctx.map (·.2)).getD []) = tagRole syn tk ctx := by
  cases syn
  · simp only [parseTagGen, wrapGen_eq, html_eq]
  · simp only [parseTagGen, wrapGen_eq, epfs_eq]

/-- at top level `parse` calls `self._parseTag(mo)`: the defaults of the source -/
theorem parseTagGen_top (tk : Tok) :
    wrapGen @parseTagHtmlGen tk = tagRole .html tk none ∧ wrapGen @parseTagEpfsGen tk = tagRole .epfs tk none ∧
    parseTagHtmlGen tk = tagRole .html tk none ∧ parseTagEpfsGen tk = tagRole .epfs tk none :=
  ⟨by simpa [parseTagGen] using parseTagGen_eq .html tk none, by simpa [parseTagGen] using parseTagGen_eq .epfs tk none,
   by simpa using html_eq tk none, by simpa using epfs_eq tk none⟩

end DTML.Lemmas.ParseTag
