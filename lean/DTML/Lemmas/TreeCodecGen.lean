/-
Lemmas for Props/C20: the loops of the translated dtml-tree codec (GenTree.lean, generated from TreeTag.py on every
run) are the chunk lists of the model (TreeCodec.chunks); `find` + cut = `takeWhile`; the padding rule.
-/
import DTML.GenTree
set_option linter.unusedVariables false
namespace DTML.Lemmas.TreeCodecGen
open DTML.TreeCodec DTML.GenTree

/-- `for i in range(0, len(l), n): states.append(f(l[i:i + n]))` appends `f` of the chunks of `l` -/
theorem enc_loop {α β : Type} (n : Nat) (l : List α) (f : List α → β) (g : List β → Nat → List β)
    (hg : ∀ st i, g st i = st ++ [f (pySlice l i (i + n))]) :
    ∀ (fuel i : Nat) (acc : List β),
      (pyRangeAux l.length n fuel i).foldl g acc = acc ++ (chunksAux n fuel (l.drop i)).map f := by
  intro fuel
  induction fuel with
  | zero => intro i acc; simp [pyRangeAux, chunksAux]
  | succ fuel ih =>
    intro i acc
    unfold pyRangeAux chunksAux
    by_cases h : i < l.length
    · have he : (l.drop i).isEmpty = false := by
        cases hd : l.drop i with
        | nil => have := congrArg List.length hd; simp at this; omega
        | cons a t => rfl
      rw [if_pos h, he, List.foldl_cons, ih, hg]
      have h1 : pySlice l i (i + n) = (l.drop i).take n := by
        unfold pySlice; congr 1; omega
      have h2 : (l.drop i).drop n = l.drop (i + n) := by rw [List.drop_drop]
      rw [h1, h2]
      simp
    · have he : (l.drop i).isEmpty = true := by
        rw [List.drop_of_length_le (by omega)]; rfl
      rw [if_neg h, he]
      simp

/-- the encoder's loop as the source has it: `range(0, len(l), n)` from an empty list -/
theorem enc_loop_range {α β : Type} (n : Nat) (l : List α) (f : List α → β) (g : List β → Nat → List β)
    (hg : ∀ st i, g st i = st ++ [f (pySlice l i (i + n))]) :
    (pyRange 0 l.length n).foldl g [] = (chunks n l).map f := by
  unfold pyRange chunks
  rw [enc_loop n l f g hg]
  simp

theorem chunksAux_nil {α : Type} (n cf : Nat) : chunksAux n cf ([] : List α) = [] := by
  cases cf <;> simp [chunksAux]

/-- `j = 0; for i in range(m): k = j + n; states.append(f(l[j:k])); j = k` appends `f` of the `m` full chunks -/
theorem dec_loop {α β : Type} (n : Nat) (hn : 0 < n) (l : List α) (f : List α → β)
    (g : List β × Nat → Nat → List β × Nat)
    (hg : ∀ c i, g c i = (c.1 ++ [f (pySlice l c.2 (c.2 + n))], c.2 + n)) (m : Nat) :
    ∀ (fuel i j cf : Nat) (acc : List β), fuel ≤ cf → j + n * fuel ≤ l.length → i + fuel ≤ m →
      (pyRangeAux m 1 fuel i).foldl g (acc, j) =
        (acc ++ (chunksAux n cf ((l.drop j).take (n * fuel))).map f, j + n * fuel) := by
  intro fuel
  induction fuel with
  | zero => intro i j cf acc _ _ _; simp [pyRangeAux, chunksAux_nil]
  | succ fuel ih =>
    intro i j cf acc hcf hl hi
    match cf, hcf with
    | cf + 1, hcf =>
      have hmul : n * (fuel + 1) = n * fuel + n := Nat.mul_succ n fuel
      unfold pyRangeAux chunksAux
      have he : ((l.drop j).take (n * (fuel + 1))).isEmpty = false := by
        cases hd : (l.drop j).take (n * (fuel + 1)) with
        | nil => have := congrArg List.length hd; simp at this; omega
        | cons a t => rfl
      rw [if_pos (by omega), he, List.foldl_cons, hg]
      simp only []
      rw [ih (i + 1) (j + n) cf _ (by omega) (by omega) (by omega)]
      have h1 : pySlice l j (j + n) = ((l.drop j).take (n * (fuel + 1))).take n := by
        unfold pySlice; rw [List.take_take]; congr 1; omega
      have h2 : ((l.drop j).take (n * (fuel + 1))).drop n = (l.drop (j + n)).take (n * fuel) := by
        rw [List.drop_take, List.drop_drop]; congr 1; omega
      rw [h1, h2]
      have h3 : j + n + n * fuel = j + (n * fuel + n) := by omega
      simp [hmul, h3]

/-- the decoder's loop as the source has it: `range(m)` from `([], 0)`, `m` full chunks being there -/
theorem dec_loop_range {α β : Type} (n : Nat) (hn : 0 < n) (l : List α) (f : List α → β)
    (g : List β × Nat → Nat → List β × Nat)
    (hg : ∀ c i, g c i = (c.1 ++ [f (pySlice l c.2 (c.2 + n))], c.2 + n)) (m : Nat) (hm : m * n ≤ l.length) :
    (pyRange 0 m 1).foldl g ([], 0) = ((chunks n (l.take (m * n))).map f, m * n) := by
  unfold pyRange chunks
  have hmn : m * n = n * m := Nat.mul_comm m n
  rw [dec_loop n hn l f g hg m m 0 0 (l.take (m * n)).length [] (by
    rw [List.length_take, Nat.min_eq_left hm, hmn]; exact Nat.le_mul_of_pos_left m hn) (by omega) (by omega)]
  simp [hmn]

theorem flatten_map {α β : Type} (f : α → List β) (l : List α) : (l.map f).flatten = l.flatMap f := by
  simp [List.flatMap]

/-- `l_ = s.find(c); if l_ >= 0: s = s[:l_]` cuts at the first `c` -/
theorem find_cut (c : Char) : ∀ (s : List Char),
    (if pyFind s c ≥ 0 then pySliceTo s (pyFind s c) else s) = s.takeWhile (· != c) := by
  intro s
  have key : ∀ (s : List Char), match s.findIdx? (· == c) with
      | some i => s.take i = s.takeWhile (· != c)
      | none => s = s.takeWhile (· != c) := by
    intro s
    induction s with
    | nil => simp
    | cons a t ih =>
      rw [List.findIdx?_cons]
      by_cases h : (a == c) = true
      · have h' : (a != c) = false := by simp [bne, h]
        simp [h, h']
      · have h' : (a != c) = true := by simp [bne, h]
        simp only [h, List.takeWhile_cons, h']
        cases hf : t.findIdx? (· == c) with
        | none => rw [hf] at ih; simp only [] at ih; simp [← ih]
        | some i => rw [hf] at ih; simp only [] at ih; simp [ih]
  have k := key s
  unfold pyFind
  cases hf : s.findIdx? (· == c) with
  | none => rw [hf] at k; simp; exact k
  | some i => rw [hf] at k; simp [pySliceTo]; exact k

/-- `k = len(s) % 4; if k: s = s + b'=' * (4 - k)` -/
theorem pad_gen (s : List Char) :
    (if s.length % 4 ≠ 0 then s ++ List.replicate ((4 : Int) - ((s.length % 4 : Nat) : Int)).toNat '=' else s) = pad s := by
  unfold pad
  by_cases h : s.length % 4 = 0
  · simp [h]
  · rw [if_pos h, if_neg h]
    congr 2
    omega

end DTML.Lemmas.TreeCodecGen
