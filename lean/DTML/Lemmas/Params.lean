/-
Lemmas for the obligations on DT_Util.parse_params / name_param (DTML/GenParams.lean, generated):
the chain of the four matchers in the order of the source is the model's `nextSpec`.
-/
import DTML.GenParams
set_option linter.unusedVariables false
namespace DTML.Lemmas.Params
open DTML.Scan DTML.Parse DTML.GenParams

theorem isTokChar_quote : isTokChar '"' = false := by decide

/-- what the chain `if mo_p … elif mo_q … elif mo_unp … elif mo_unq … else` sees = the model's classifier -/
def ChainSpec (text : Text) : Prop :=
  (∀ g, matchParm text = some g →
    ∃ L, nextSpec text = .named (grp (some g) 2) (grp (some g) 3) L ∧ grp (some g) 1 = text.take L) ∧
  (matchParm text = none → ∀ g, matchQparm text = some g →
    ∃ L, nextSpec text = .named (grp (some g) 2) (grp (some g) 3) L ∧ grp (some g) 1 = text.take L) ∧
  (matchParm text = none → matchQparm text = none → ∀ g, matchUnparm text = some g →
    ∃ L, nextSpec text = .bare (grp (some g) 2) L ∧ grp (some g) 1 = text.take L) ∧
  (matchParm text = none → matchQparm text = none → matchUnparm text = none → ∀ g, matchQunparm text = some g →
    ∃ L, nextSpec text = .quoted (grp (some g) 2) L ∧ grp (some g) 1 = text.take L) ∧
  (matchParm text = none → matchQparm text = none → matchUnparm text = none → matchQunparm text = none →
    nextSpec text = if (pyStrip text).isEmpty then .blank else .bad)

theorem chain_spec (text : Text) : ChainSpec text := by
  unfold ChainSpec matchParm matchQparm matchUnparm matchQunparm nextSpec
  simp only []
  generalize (List.takeWhile isCtl text).length = w
  generalize List.drop w text = s
  generalize (List.takeWhile isTokChar s).length = n
  generalize List.drop n s = d
  by_cases hn : n > 0
  · simp only [hn, if_true]
    refine ⟨?_, ?_, ?_, ?_, ?_⟩
    · intro g h
      split at h
      · split at h
        · rename_i hv
          cases h
          refine ⟨_, ?_, rfl⟩
          simp only [hv, if_true, grp, List.getD_cons_succ, List.getD_cons_zero]
        · cases h
      · cases h
    · intro hp g h
      split at h
      · split at h
        · rename_i q e he
          cases h
          refine ⟨_, ?_, rfl⟩
          simp only [List.takeWhile_cons, isTokChar_quote, List.length_nil, Nat.lt_irrefl, if_false, he, grp, List.getD_cons_succ, List.getD_cons_zero, Bool.false_eq_true]
        · cases h
      · cases h
    · intro hp hq g h
      cases h
      refine ⟨w + n, ?_, rfl⟩
      simp only [grp, List.getD_cons_succ, List.getD_cons_zero]
      split
      · rename_i r
        simp only [] at hp hq
        split
        · rename_i hv
          simp only [hv, if_true] at hp
          cases hp
        · split
          · rename_i q
            simp only [] at hq
            split
            · rename_i e he
              simp only [he] at hq
              cases hq
            · rfl
          · rfl
      · rfl
    · intro _ _ h; cases h
    · intro _ _ h; cases h
  · simp only [hn, if_false]
    refine ⟨?_, ?_, ?_, ?_, ?_⟩
    · intro g h; cases h
    · intro _ g h; cases h
    · intro _ _ g h; cases h
    · intro _ _ _ g h
      split at h
      · split at h
        · rename_i q e he
          cases h
          refine ⟨_, ?_, rfl⟩
          simp only [he, grp, List.getD_cons_succ, List.getD_cons_zero]
        · cases h
      · cases h
    · intro _ _ _ h
      split
      · split
        · rename_i q e he
          simp only [he] at h
          cases h
        · rfl
      · rfl

/-- `text[len(mo.group(1)):]` -/
theorem drop_take_length (text : Text) (L : Nat) : text.drop (text.take L).length = text.drop L := by
  rw [List.length_take]
  rcases Nat.le_total L text.length with h | h
  · rw [Nat.min_eq_left h]
  · rw [Nat.min_eq_right h, List.drop_length, List.drop_eq_nil_of_le h]

/-- `type(p) is not ListType or p` on the repr of a default: everything but the empty list -/
theorem repr_list_test (d : String) : ((!reprIsList d) || reprTruthy d) = (d != "[]") := by
  unfold reprTruthy
  by_cases hm : ["None", "False", "0", "''", "\"\"", "[]", "()", "{}"].contains d = true
  · simp only [List.contains_eq_mem, List.mem_cons, List.not_mem_nil, or_false, decide_eq_true_eq] at hm
    rcases hm with h | h | h | h | h | h | h | h <;> subst h <;> decide
  · have hne : d ≠ "[]" := by
      intro h; subst h; exact hm (by decide)
    simp only [Bool.not_eq_true] at hm
    simp only [hm, Bool.not_false, Bool.or_true]
    exact (bne_iff_ne.mpr hne).symm

/-- one call of the model with the recursive call as a parameter -/
def modelStep (tbl : Table) (k : Text → Params → Except PErr Params) (text : Text) (res : Params) : Except PErr Params :=
  match nextSpec text with
  | .named name value len =>
    let nm := String.ofList (asciiLower name)
    match tbl.lookup nm with
    | none => .error ⟨"Invalid attribute name"⟩
    | some d =>
      if res.has nm && d != "[]" then .error ⟨"Duplicate values for attribute"⟩
      else
        let res := (res.filter (·.1 != nm)) ++ [(nm, .str value)]
        let rest := pyStrip (text.drop len)
        if rest.isEmpty then .ok res else k rest res
  | .bare word len =>
    let nm := String.ofList word
    if res.isEmpty then k (text.drop len) [("", .str word)]
    else
      match tbl.lookup nm with
      | none => .error ⟨"Invalid attribute name"⟩
      | some d =>
        if d = "None" then .error ⟨"Attribute requires a value"⟩
        else k (text.drop len) ((res.filter (·.1 != nm)) ++ [(nm, .dflt d)])
  | .quoted q len =>
    if res.isEmpty then k (text.drop len) [("", .str q)]
    else .error ⟨"Invalid attribute name"⟩
  | .blank => .ok res
  | .bad => .error ⟨"invalid parameter"⟩

theorem aux_succ (tbl : Table) (fuel : Nat) (text : Text) (res : Params) :
    parseParamsAux tbl (fuel + 1) text res = modelStep tbl (parseParamsAux tbl fuel) text res := by
  rfl

/-! #### every successful match consumes at least one character: the fuel of the model is never used up -/

/-- what a successful match reports as consumed is at least one character -/
def consumed : Spec → Option Nat
  | .named _ _ len => some len
  | .bare _ len => some len
  | .quoted _ len => some len
  | .blank => none
  | .bad => none

theorem nextSpec_consumes (text : Text) (len : Nat) (h : consumed (nextSpec text) = some len) : 1 ≤ len := by
  unfold nextSpec at h
  simp only [] at h
  generalize (List.takeWhile isCtl text).length = w at h
  generalize List.drop w text = s at h
  generalize (List.takeWhile isTokChar s).length = n at h
  generalize List.drop n s = d at h
  repeat' split at h
  all_goals (simp only [consumed, Option.some.injEq] at h; try omega)
  all_goals cases h

theorem nextSpec_nil : consumed (nextSpec []) = none := by decide

theorem pyStrip_length_le (s : Text) : (pyStrip s).length ≤ s.length := by
  unfold pyStrip
  rw [List.length_reverse]
  refine Nat.le_trans (List.dropWhile_sublist _).length_le ?_
  rw [List.length_reverse]
  exact (List.dropWhile_sublist _).length_le

/-- the rest of the text after a successful match is shorter -/
theorem rest_shorter (text : Text) (len : Nat) (h : consumed (nextSpec text) = some len) :
    (text.drop len).length < text.length := by
  have h1 := nextSpec_consumes text len h
  cases text with
  | nil => rw [nextSpec_nil] at h; cases h
  | cons c t => rw [List.length_drop]; simp only [List.length_cons]; omega

/-- the recursive call is only ever made on a shorter text -/
theorem modelStep_congr (tbl : Table) (k1 k2 : Text → Params → Except PErr Params) (text : Text) (res : Params)
    (hk : ∀ t r, t.length < text.length → k1 t r = k2 t r) : modelStep tbl k1 text res = modelStep tbl k2 text res := by
  unfold modelStep
  have hr := rest_shorter text
  have hs := fun len => pyStrip_length_le (text.drop len)
  split
  · rename_i name value len heq
    have := hr len (by rw [heq]; rfl)
    have h2 := hk (pyStrip (text.drop len)) 
    simp only []
    split
    · rfl
    · split
      · rfl
      · split
        · rfl
        · exact hk _ _ (Nat.lt_of_le_of_lt (hs len) this)
  · rename_i word len heq
    have := hr len (by rw [heq]; rfl)
    simp only []
    split
    · exact hk _ _ this
    · split
      · rfl
      · split
        · rfl
        · exact hk _ _ this
  · rename_i q len heq
    have := hr len (by rw [heq]; rfl)
    split
    · exact hk _ _ this
    · rfl
  · rfl
  · rfl

theorem aux_fuel_irrelevant (tbl : Table) : ∀ (f1 f2 : Nat) (text : Text) (res : Params),
    text.length < f1 → text.length < f2 → parseParamsAux tbl f1 text res = parseParamsAux tbl f2 text res := by
  intro f1
  induction f1 with
  | zero => intro f2 text res h; omega
  | succ f1 ih =>
    intro f2 text res h1 h2
    cases f2 with
    | zero => omega
    | succ f2 =>
      rw [aux_succ, aux_succ]
      exact modelStep_congr tbl _ _ text res (fun t r ht => ih f2 t r (by omega) (by omega))
/-! #### name_param -/

theorem opt_cases {α : Type} (o : Option α) : o = none ∨ ∃ d, o = some d := by
  cases o
  · exact Or.inl rfl
  · exact Or.inr ⟨_, rfl⟩

/-- `v[1:-1]` -/
theorem slice_1_m1 (v : Text) : (v.take (v.length - 1)).drop 1 = (v.drop 1).dropLast := by
  rw [List.dropLast_eq_take, List.length_drop, List.drop_take]

/-- `v[-1:]` -/
theorem drop_last : ∀ (v : Text), v.drop (v.length - 1) = (match v.getLast? with | some c => [c] | none => [])
  | [] => rfl
  | [a] => rfl
  | a :: b :: t => by
    have ih := drop_last (b :: t)
    rw [List.getLast?_cons_cons]
    rw [← ih]
    simp only [List.length_cons, Nat.add_sub_cancel, List.drop_succ_cons]

/-- `v[:1] == '"' and v[-1:] == '"' and len(v) > 1` -/
theorem quoted_test (v : Text) :
    ((v.take 1 == ['"']) && (v.drop (v.length - 1) == ['"']) && decide (v.length > 1)) = isQuotedShorthand v := by
  unfold isQuotedShorthand
  rw [drop_last]
  congr 1
  congr 1
  · cases v with
    | nil => rfl
    | cons c t => by_cases h : c = '"' <;> simp [h]
  · cases v.getLast? with
    | none => rfl
    | some c => by_cases h : c = '"' <;> simp [h]

end DTML.Lemmas.Params
