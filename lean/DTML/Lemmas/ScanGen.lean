/-
Lemmas for the obligation "the scanner of the model is the scanner of the source" (Props/C01.gen_html_scanner_*):
`GenScan.candidateGen` / `searchGen` are regenerated from `dtml_re_class.search` on every run (harness/trans_scan.py);
here they are proved equal to `Scan.candidate` / `Scan.scanHtml`.  No Mathlib.
-/
import DTML.GenScan
namespace DTML.Lemmas.ScanGen
open DTML.Scan DTML.GenScan

theorem isPrefixOf_iff_take (pat : Text) : ∀ (l : Text), pat.isPrefixOf l = true ↔ l.take pat.length = pat := by
  induction pat with
  | nil => intro l; simp
  | cons p ps ih =>
    intro l
    cases l with
    | nil => simp
    | cons x xs =>
      simp only [List.isPrefixOf, List.length_cons, List.take_succ_cons, List.cons.injEq, Bool.and_eq_true, beq_iff_eq]
      rw [ih]
      constructor
      · rintro ⟨h1, h2⟩; exact ⟨h1.symm, h2⟩
      · rintro ⟨h1, h2⟩; exact ⟨h1.symm, h2⟩

theorem slice_prefix (text : Text) (s k : Nat) (pat : Text) (hk : pat.length = k) :
    (pySlice text (s : Int) ((s : Int) + k) = pat) ↔ pat.isPrefixOf (text.drop s) = true := by
  rw [isPrefixOf_iff_take]
  simp only [pySlice, Int.toNat_natCast, hk]
  have : ((s : Int) + (k : Int) - (s : Int)).toNat = k := by omega
  rw [this]

theorem find_drop (text pat : Text) (n : Nat) :
    pyFind text pat (n : Int) = (match findSub pat (text.drop n) with | some k => ((n + k : Nat) : Int) | none => -1) := by
  simp only [pyFind, Int.toNat_natCast]
  cases findSub pat (text.drop n) <;> simp



/-- parity bookkeeping of `findCloseAux` over a stretch without '>' -/
theorem aux_skip : ∀ (pre rest : Text) (i : Nat) (ev : Bool), (∀ c ∈ pre, c ≠ '>') →
    findCloseAux (pre ++ rest) i ev =
      findCloseAux rest (i + pre.length) (if countChar '"' pre % 2 = 0 then ev else !ev) := by
  intro pre
  induction pre with
  | nil => intro rest i ev _; simp [countChar]
  | cons p ps ih =>
    intro rest i ev h
    have hp : p ≠ '>' := h p (by simp)
    simp only [List.cons_append, findCloseAux]
    have : ¬ (decide (i ≥ 1) && decide (p = '>') && ev) = true := by simp [hp]
    rw [if_neg this, ih rest (i + 1) _ (fun c hc => h c (by simp [hc]))]
    have hl : i + 1 + ps.length = i + (p :: ps).length := by simp; omega
    rw [hl]
    congr 1
    by_cases hq : p = '"'
    · subst hq
      have : countChar '"' ('"' :: ps) = countChar '"' ps + 1 := by simp [countChar]
      rw [this]
      by_cases h2 : countChar '"' ps % 2 = 0
      · have : (countChar '"' ps + 1) % 2 ≠ 0 := by omega
        simp [h2, this]
      · have : (countChar '"' ps + 1) % 2 = 0 := by omega
        simp [h2, this]
    · have : countChar '"' (p :: ps) = countChar '"' ps := by simp [countChar, hq]
      rw [this]
      simp [hq]

theorem findSub_single_none (c : Char) : ∀ (l : Text), findSub [c] l = none → ∀ x ∈ l, x ≠ c := by
  intro l
  induction l with
  | nil => intro _ x hx; simp at hx
  | cons y ys ih =>
    intro h x hx
    simp only [findSub, List.isPrefixOf, Bool.and_true, beq_iff_eq] at h
    by_cases hy : c = y
    · simp [hy] at h
    · simp only [hy, if_false, Option.map_eq_none_iff] at h
      rcases List.mem_cons.mp hx with rfl | hx
      · exact fun e => hy e.symm
      · exact ih h x hx

theorem findSub_single_some (c : Char) : ∀ (l : Text) (d : Nat), findSub [c] l = some d →
    ∃ pre post, l = pre ++ c :: post ∧ pre.length = d ∧ ∀ x ∈ pre, x ≠ c := by
  intro l
  induction l with
  | nil => intro d h; simp [findSub] at h
  | cons y ys ih =>
    intro d h
    simp only [findSub, List.isPrefixOf, Bool.and_true, beq_iff_eq] at h
    by_cases hy : c = y
    · simp only [hy, if_true, Option.some.injEq] at h
      exact ⟨[], ys, by simp [hy], by simp [h], by simp⟩
    · simp only [hy, if_false, Option.map_eq_some_iff] at h
      obtain ⟨d', hd', rfl⟩ := h
      obtain ⟨pre, post, h1, h2, h3⟩ := ih d' hd'
      refine ⟨y :: pre, post, by simp [h1], by simp [h2], ?_⟩
      intro x hx
      rcases List.mem_cons.mp hx with rfl | hx
      · exact fun e => hy e.symm
      · exact h3 x hx

theorem aux_none_of_no_gt : ∀ (l : Text) (i : Nat) (ev : Bool), (∀ c ∈ l, c ≠ '>') → findCloseAux l i ev = none := by
  intro l
  induction l with
  | nil => intros; rfl
  | cons p ps ih =>
    intro i ev h
    have hp : p ≠ '>' := h p (by simp)
    simp only [findCloseAux]
    have : ¬ (decide (i ≥ 1) && decide (p = '>') && ev) = true := by simp [hp]
    rw [if_neg this]
    exact ih _ _ (fun c hc => h c (by simp [hc]))



theorem countChar_append (c : Char) (a b : Text) : countChar c (a ++ b) = countChar c a + countChar c b := by
  simp [countChar]

theorem closeLoop_spec (text : Text) (n : Nat) :
    ∀ (fuel i : Nat), (text.drop n).length - i < fuel →
    closeLoop text (n : Int) fuel ((n + i : Nat) : Int) =
      (match findCloseAux ((text.drop n).drop (i + 1)) (i + 1)
              (decide (countChar '"' ((text.drop n).take (i + 1)) % 2 = 0)) with
       | some k => ((n + k : Nat) : Int)
       | none => -1) := by
  intro fuel
  induction fuel with
  | zero => intro i h; omega
  | succ f ih =>
    intro i hf
    generalize hb : text.drop n = body at hf ⊢
    have hrest : text.drop ((((n + i : Nat) : Int) + 1).toNat) = body.drop (i + 1) := by
      have : (((n + i : Nat) : Int) + 1).toNat = n + (i + 1) := by omega
      rw [this, ← hb, List.drop_drop]
    simp only [closeLoop, pyFind, hrest]
    cases hfs : findSub ['>'] (body.drop (i + 1)) with
    | none =>
      have hno := findSub_single_none '>' _ hfs
      rw [aux_none_of_no_gt _ _ _ hno]
      simp
    | some d =>
      obtain ⟨pre, post, h1, h2, h3⟩ := findSub_single_some '>' _ d hfs
      have hi : i + 1 ≤ body.length := by
        rcases Nat.lt_or_ge body.length (i + 1) with hc | hc
        · have : body.drop (i + 1) = [] := List.drop_eq_nil_of_le (by omega)
          rw [this] at h1
          cases pre <;> simp at h1
        · exact hc
      have hsplit : body = body.take (i + 1) ++ (pre ++ '>' :: post) := by
        rw [← h1, List.take_append_drop]
      have hlen1 : (body.take (i + 1)).length = i + 1 := by simp [List.length_take]; omega
      have htakej : body.take (i + 1 + d) = body.take (i + 1) ++ pre := by
        conv => lhs; rw [hsplit]
        rw [List.take_append, hlen1]
        have : i + 1 + d - (i + 1) = d := by omega
        rw [this, ← h2, List.take_left']
        · simp [List.take_of_length_le, hlen1]
        · rfl
      have hdropj : body.drop (i + 1 + d + 1) = post := by
        conv => lhs; rw [hsplit]
        rw [List.drop_append, hlen1]
        have e1 : i + 1 + d + 1 - (i + 1) = d + 1 := by omega
        have e2 : List.drop (i + 1 + d + 1) (List.take (i + 1) body) = [] :=
          List.drop_eq_nil_of_le (by rw [hlen1]; omega)
        rw [e1, e2, List.nil_append, ← h2]
        simp
      have hneg : ¬ ((((n + i : Nat) : Int) + 1 + (d : Int)) < 0) := by omega
      simp only [hneg, if_false]
      -- the slice text[n : n+j] is body.take j
      have hslice : pySlice text (n : Int) (((n + i : Nat) : Int) + 1 + (d : Int)) = body.take (i + 1 + d) := by
        simp only [pySlice, Int.toNat_natCast, hb]
        have : (((n + i : Nat) : Int) + 1 + (d : Int) - (n : Int)).toNat = i + 1 + d := by omega
        rw [this]
      rw [hslice, htakej, countChar_append]
      -- the model side
      rw [h1, aux_skip pre ('>' :: post) (i + 1) _ h3, h2]
      simp only [findCloseAux]
      have hge : decide (i + 1 + d ≥ 1) = true := decide_eq_true (by omega)
      have hcast0 : (((n + i : Nat) : Int) + 1 + (d : Int)) = ((n + (i + 1 + d) : Nat) : Int) := by omega
      by_cases hev : (countChar '"' (body.take (i + 1)) + countChar '"' pre) % 2 = 0
      · have h1' : (countChar '"' (List.take (i + 1) body) + countChar '"' pre + 1) % 2 = 1 := by omega
        rw [if_pos h1']
        have hpar : (if countChar '"' pre % 2 = 0 then decide (countChar '"' (List.take (i + 1) body) % 2 = 0)
            else !decide (countChar '"' (List.take (i + 1) body) % 2 = 0)) = true := by
          by_cases hp : countChar '"' pre % 2 = 0
          · simp [hp]; omega
          · simp [hp]; omega
        simp only [hpar, hge, Bool.and_self, decide_true, if_true]
        exact hcast0
      · have h1' : ¬ (countChar '"' (List.take (i + 1) body) + countChar '"' pre + 1) % 2 = 1 := by omega
        rw [if_neg h1']
        have hpar : (if countChar '"' pre % 2 = 0 then decide (countChar '"' (List.take (i + 1) body) % 2 = 0)
            else !decide (countChar '"' (List.take (i + 1) body) % 2 = 0)) = false := by
          by_cases hp : countChar '"' pre % 2 = 0
          · simp [hp]; omega
          · simp [hp]; omega
        simp only [hpar, Bool.and_false, Bool.false_eq_true, if_false]
        have hcast : (((n + i : Nat) : Int) + 1 + (d : Int)) = ((n + (i + 1 + d) : Nat) : Int) := by omega
        rw [hcast]
        have := ih (i + 1 + d) (by rw [hb]; omega)
        rw [hb] at this
        rw [this, hdropj]
        have htk : body.take (i + 1 + d + 1) = body.take (i + 1) ++ pre ++ ['>'] := by
          conv => lhs; rw [hsplit]
          have e1 : i + 1 + d + 1 = (body.take (i + 1)).length + (d + 1) := by rw [hlen1]; omega
          rw [e1, List.take_length_add_append]
          have e2 : d + 1 = pre.length + 1 := by rw [h2]
          rw [e2, List.take_length_add_append]
          simp
        rw [htk, countChar_append, countChar_append]
        have hgt : countChar '"' ['>'] = 0 := by decide
        rw [hgt]
        have hd : decide ((countChar '"' (List.take (i + 1) body) + countChar '"' pre + 0) % 2 = 0) = false := by
          simp; omega
        have hne : ('>' : Char) ≠ '"' := by decide
        simp only [hd, hne, if_false]



theorem findClose_start (body : Text) :
    findClose body = findCloseAux (body.drop 1) 1 (decide (countChar '"' (body.take 1) % 2 = 0)) := by
  cases body with
  | nil => rfl
  | cons c t =>
    simp only [findClose, findCloseAux, List.drop_succ_cons, List.drop_zero, List.take_succ_cons, List.take_zero]
    have : ¬ (decide (0 ≥ 1) && decide (c = '>') && true) = true := by simp
    rw [if_neg this]
    by_cases hc : c = '"'
    · subst hc; rfl
    · have : countChar '"' [c] = 0 := by simp [countChar, hc]
      simp [hc, this]

/-- the loop started at `e = n` finds what `findClose` finds in the text from `n` on -/
theorem closeLoop_findClose (text : Text) (n : Nat) :
    closeLoop text (n : Int) (text.length + 1) (n : Int) =
      (match findClose (text.drop n) with | some k => ((n + k : Nat) : Int) | none => -1) := by
  have h := closeLoop_spec text n (text.length + 1) 0 (by simp [List.length_drop]; omega)
  simp only [Nat.add_zero, Nat.zero_add] at h
  rw [h, findClose_start]



theorem slice_drop_take (text : Text) (a k : Nat) : pySlice text (a : Int) ((a : Int) + k) = (text.drop a).take k := by
  simp only [pySlice, Int.toNat_natCast]
  have : ((a : Int) + (k : Int) - (a : Int)).toNat = k := by omega
  rw [this]

theorem slice_nat (text : Text) (a b : Nat) : pySlice text (a : Int) (b : Int) = (text.drop a).take (b - a) := by
  simp only [pySlice, Int.toNat_natCast]
  have : ((b : Int) - (a : Int)).toNat = b - a := by omega
  rw [this]

/-- the shared tail: name_match … return -/
theorem tail_eq (text : Text) (s m k en : Nat) (end_ : Text) :
    (match nameMatchAt text ((s + m : Nat) : Int) with
      | none => Cand.skip
      | some l_ =>
        Cand.tok ((((s + k : Nat) : Int) + (en : Int)) - (s : Int)).toNat
          { text := pySlice text (s : Int) (((s + k : Nat) : Int) + (en : Int)), isEnd := !end_.isEmpty,
            name := pyStrip (pySlice text ((s + m : Nat) : Int) (((s + m : Nat) : Int) + l_)),
            args := pyStrip (pySlice text (((s + m : Nat) : Int) + l_) ((s + k : Nat) : Int)) }) =
    (match nameMatchLen ((text.drop s).drop m) with
      | none => Cand.skip
      | some l =>
        Cand.tok (k + en) { text := (text.drop s).take (k + en), isEnd := !end_.isEmpty,
                             name := pyStrip (((text.drop s).drop m).take l),
                             args := pyStrip ((((text.drop s).drop m).take (k - m)).drop l) }) := by
  simp only [nameMatchAt, Int.toNat_natCast, List.drop_drop]
  cases hn : nameMatchLen (List.drop (s + m) text) with
  | none => rfl
  | some l =>
    simp only [Option.map_some]
    have e1 : ((((s + k : Nat) : Int) + (en : Int)) - (s : Int)).toNat = k + en := by omega
    have e2 : pySlice text (s : Int) (((s + k : Nat) : Int) + (en : Int)) = (text.drop s).take (k + en) := by
      have : (((s + k : Nat) : Int) + (en : Int)) = (s : Int) + ((k + en : Nat) : Int) := by omega
      rw [this, slice_drop_take]
    have e3 : pySlice text ((s + m : Nat) : Int) (((s + m : Nat) : Int) + Int.ofNat l) = (text.drop (s + m)).take l := by
      exact slice_drop_take text (s + m) l
    have e4 : pySlice text (((s + m : Nat) : Int) + Int.ofNat l) ((s + k : Nat) : Int) =
        ((text.drop (s + m)).take (k - m)).drop l := by
      have : (((s + m : Nat) : Int) + Int.ofNat l) = ((s + m + l : Nat) : Int) := by simp [Int.ofNat_eq_natCast]
      rw [this, slice_nat, List.drop_take, List.drop_drop]
      congr 1
      omega
    rw [e1, e2, e3, e4]



theorem tailGen_eq (text : Text) (s m k en : Nat) (end_ : Text) :
    tailGen text (s : Int) ((s + m : Nat) : Int) ((s + k : Nat) : Int) (en : Int) end_ =
    (match nameMatchLen ((text.drop s).drop m) with
      | none => Cand.skip
      | some l =>
        Cand.tok (k + en) { text := (text.drop s).take (k + en), isEnd := !end_.isEmpty,
                             name := pyStrip (((text.drop s).drop m).take l),
                             args := pyStrip ((((text.drop s).drop m).take (k - m)).drop l) }) := by
  have h := tail_eq text s m k en end_
  unfold tailGen
  cases hn : nameMatchAt text ((s + m : Nat) : Int) with
  | none => rw [hn] at h; exact h
  | some l => rw [hn] at h; exact h



theorem drop_take_drop (L : Text) (l k e : Nat) :
    ((L.drop l).take (e - l)).drop k = (L.take e).drop (l + k) := by
  have h1 : (L.take e).drop (l + k) = ((L.take e).drop l).drop k := by rw [List.drop_drop]
  rw [h1]; simp only [List.drop_take]

theorem take1_iff (L : Text) (c : Char) : L.take 1 = [c] ↔ L.head? = some c := by
  cases L with
  | nil => simp
  | cons x xs => simp

theorem takeWhile_len_all (p : Char → Bool) : ∀ (l : Text), (l.takeWhile p).length = l.length ↔ l.all p = true := by
  intro l
  induction l with
  | nil => simp
  | cons x xs ih =>
    by_cases hx : p x = true
    · simp [List.takeWhile, hx, ih]
    · simp [List.takeWhile, hx]

/-- `ent_name(args)` matches all of `args` iff `args` is a non-empty run of entity-name characters -/
theorem entName_full (args : Text) :
    (match entNameLen args with
     | some ml => decide (ml = (args.length : Int))
     | none => false) = (!args.isEmpty && args.all isEntChar) := by
  unfold entNameLen
  by_cases h0 : (args.takeWhile isEntChar).length = 0
  · simp only [h0, if_true]
    cases args with
    | nil => simp
    | cons x xs =>
      have : isEntChar x = false := by
        cases hx : isEntChar x with
        | false => rfl
        | true => simp [List.takeWhile, hx] at h0
      simp [this]
  · simp only [h0, if_false]
    have hne : args ≠ [] := by
      intro h; subst h; simp at h0
    have h1 : (decide (((args.takeWhile isEntChar).length : Int) = (args.length : Int))) =
        decide ((args.takeWhile isEntChar).length = args.length) := by
      congr 1
      exact propext ⟨fun h => by exact_mod_cast h, fun h => by exact_mod_cast h⟩
    rw [h1]
    have h2 := takeWhile_len_all isEntChar args
    cases hall : args.all isEntChar with
    | true =>
      have := h2.mpr hall
      cases args with
      | nil => exact absurd rfl hne
      | cons x xs => simp [this]
    | false =>
      have : ¬ (args.takeWhile isEntChar).length = args.length := fun h => by
        have := h2.mp h; rw [hall] at this; cases this
      simp [this]

theorem entName_none (args : Text) (h : entNameLen args = none) : (!args.isEmpty && args.all isEntChar) = false := by
  have := entName_full args; rw [h] at this; exact this.symm

theorem entName_some (args : Text) (ml : Int) (h : entNameLen args = some ml) :
    (ml = (args.length : Int)) ↔ (!args.isEmpty && args.all isEntChar) = true := by
  have := entName_full args; rw [h] at this
  simp only at this
  rw [← this]; simp

/-- what `candidate` does after its `<!--#` test -/
theorem branch0_eq (text : Text) (s : Nat) :
    branch0Gen text (s : Int) =
      (let body := (text.drop s).drop 5
       match findSub "-->".toList body with
       | none => Cand.skip
       | some e =>
         let p := (match endMatchLen body with
           | some l => (l, !(pyStrip (body.take l)).isEmpty)
           | none => (0, false))
         match nameMatchLen (body.drop p.1) with
         | none => Cand.skip
         | some l =>
           Cand.tok (5 + e + 3) { text := (text.drop s).take (5 + e + 3), isEnd := p.2,
                                   name := pyStrip ((body.drop p.1).take l),
                                   args := pyStrip ((body.take e).drop (p.1 + l)) }) := by
  unfold branch0Gen
  have hn : ((s : Int) + 5) = ((s + 5 : Nat) : Int) := by omega
  simp only [hn, find_drop, endMatchAt, Int.toNat_natCast, List.drop_drop]
  cases hf : findSub "-->".toList (List.drop (s + 5) text) with
  | none => simp
  | some e =>
    have hneg : ¬ (((s + 5 + e : Nat) : Int) < 0) := by omega
    simp only [hneg, if_false]
    cases he : endMatchLen (List.drop (s + 5) text) with
    | none =>
      simp only [Option.map_none]
      have := tailGen_eq text s 5 (5 + e) 3 []
      rw [show ((3 : Nat) : Int) = 3 from rfl] at this
      have e1 : ((s + 5 + e : Nat) : Int) = ((s + (5 + e) : Nat) : Int) := by omega
      rw [e1, this]
      simp only [List.drop_drop, List.drop_zero, Nat.zero_add]
      have e2 : 5 + e - 5 = e := by omega
      rw [e2]
      rfl
    | some l =>
      simp only [Option.map_some]
      have := tailGen_eq text s (5 + l) (5 + e) 3 (pyStrip ((text.drop (s + 5)).take l))
      rw [show ((3 : Nat) : Int) = 3 from rfl] at this
      have e1 : ((s + 5 + e : Nat) : Int) = ((s + (5 + e) : Nat) : Int) := by omega
      have e0 : ((s + 5 : Nat) : Int) + Int.ofNat l = ((s + (5 + l) : Nat) : Int) := by
        simp [Int.ofNat_eq_natCast]; omega
      have es : pySlice text ((s + 5 : Nat) : Int) (((s + 5 : Nat) : Int) + Int.ofNat l) = (text.drop (s + 5)).take l :=
        slice_drop_take text (s + 5) l
      rw [es, e0, e1, this]
      simp only [List.drop_drop]
      have e3 : s + (5 + l) = s + 5 + l := by omega
      have e4 : 5 + e - (5 + l) = e - l := by omega
      rw [e3, e4]
      have e5 : List.drop (s + 5 + l) text = (List.drop (s + 5) text).drop l := by rw [List.drop_drop]
      cases nameMatchLen (List.drop (s + 5 + l) text) with
      | none => rfl
      | some k =>
        simp only
        rw [e5, drop_take_drop]

theorem branch12_eq (text : Text) (s m : Nat) (end_ : Text) :
    (let n := ((s : Int) + (m : Int))
     let e := closeLoop text n (text.length + 1) n
     if e < 0 then Cand.skip else tailGen text (s : Int) n e 1 end_) =
      (let body := (text.drop s).drop m
       match findClose body with
       | none => Cand.skip
       | some e =>
         match nameMatchLen body with
         | none => Cand.skip
         | some l => Cand.tok (m + e + 1) { text := (text.drop s).take (m + e + 1), isEnd := !end_.isEmpty,
                                            name := pyStrip (body.take l), args := pyStrip ((body.take e).drop l) }) := by
  have hn : ((s : Int) + (m : Int)) = ((s + m : Nat) : Int) := by omega
  simp only [hn, closeLoop_findClose, List.drop_drop]
  cases hf : findClose (List.drop (s + m) text) with
  | none => simp
  | some e =>
    have hneg : ¬ (((s + m + e : Nat) : Int) < 0) := by omega
    simp only [hneg, if_false]
    have := tailGen_eq text s m (m + e) 1 end_
    rw [show ((1 : Nat) : Int) = 1 from rfl] at this
    have e1 : ((s + m + e : Nat) : Int) = ((s + (m + e) : Nat) : Int) := by omega
    rw [e1, this]
    simp only [List.drop_drop]
    have e2 : m + e - m = e := by omega
    rw [e2]

theorem branch3_eq (text : Text) (s : Nat) :
    branch3Gen text (s : Int) =
      (if ("&dtml".toList.isPrefixOf (text.drop s) &&
          (((text.drop s).drop 5).head? = some '.' || ((text.drop s).drop 5).head? = some '-')) = true then
        let dash := ((text.drop s).drop 5).head? = some '-'
        let body := (text.drop s).drop 6
        match findSub [';'] body with
        | none => Cand.skip
        | some e =>
          let args := body.take e
          if (!args.isEmpty && args.all isEntChar) = true then
            if dash then
              Cand.tok (6 + e + 1) { text := (text.drop s).take (6 + e + 1), isEnd := false, name := "var".toList,
                                     args := args ++ " html_quote".toList }
            else
              match findSub ['-'] args with
              | none => Cand.skip
              | some nn =>
                if nn < args.length - 1 then
                  Cand.tok (6 + e + 1) { text := (text.drop s).take (6 + e + 1), isEnd := false, name := "var".toList,
                                         args := args.drop (nn + 1) ++ [' '] ++
                                           (args.take nn).map (fun c => if c = '.' then ' ' else c) }
                else Cand.skip
          else Cand.skip
      else Cand.skip) := by
  have pe : (pySlice text (s : Int) ((s : Int) + 5) = "&dtml".toList) ↔ "&dtml".toList.isPrefixOf (text.drop s) = true := by
    simpa using slice_prefix text s 5 "&dtml".toList rfl
  have hs56 : ∀ c : Char, (pySlice text ((s : Int) + 5) ((s : Int) + 6) = [c]) ↔ ((text.drop s).drop 5).head? = some c := by
    intro c
    have : pySlice text ((s : Int) + 5) ((s : Int) + 6) = (text.drop (s + 5)).take 1 := by
      have h := slice_drop_take text (s + 5) 1
      have e : ((s + 5 : Nat) : Int) = (s : Int) + 5 := by omega
      have e' : ((s + 5 : Nat) : Int) + ((1 : Nat) : Int) = (s : Int) + 6 := by omega
      rw [e'] at h; rw [e] at h; exact h
    rw [this, take1_iff, List.drop_drop]
  unfold branch3Gen
  by_cases hc : ("&dtml".toList.isPrefixOf (text.drop s) &&
      (((text.drop s).drop 5).head? = some '.' || ((text.drop s).drop 5).head? = some '-')) = true
  · rw [if_pos hc]
    have hc' := hc
    simp only [Bool.and_eq_true, Bool.or_eq_true, decide_eq_true_eq] at hc'
    have hL : pySlice text (s : Int) ((s : Int) + 5) = "&dtml".toList ∧
        (pySlice text ((s : Int) + 5) ((s : Int) + 6) = ".".toList ∨
         pySlice text ((s : Int) + 5) ((s : Int) + 6) = "-".toList) :=
      ⟨pe.mpr hc'.1, hc'.2.elim (fun h => Or.inl ((hs56 '.').mpr h)) (fun h => Or.inr ((hs56 '-').mpr h))⟩
    rw [if_pos hL]
    extract_lets n e args l_ tk1 nn args2 tk2 dash body
    have hn : n = ((s + 6 : Nat) : Int) := by show (s : Int) + 6 = _; omega
    have hbody : body = text.drop (s + 6) := by show (text.drop s).drop 6 = _; rw [List.drop_drop]
    have he : e = (match findSub [';'] body with | some k => ((s + 6 + k : Nat) : Int) | none => -1) := by
      show pyFind text ";".toList n = _
      rw [hn, find_drop, hbody]
      rfl
    have hnn : nn = pyFind args "-".toList 0 := rfl
    have htk1 : tk1 = { text := pySlice text (s : Int) (e + 1), isEnd := false, name := "var".toList, args := args ++ " html_quote".toList } := rfl
    have hargs2 : args2 = pySlice args (nn + 1) (args.length : Int) ++ " ".toList ++ replaceDot (pySlice args 0 nn) := rfl
    have htk2 : tk2 = { text := pySlice text (s : Int) (e + 1), isEnd := false, name := "var".toList, args := args2 } := rfl
    have hargs0 : args = pySlice text n e := rfl
    have hl0 : l_ = ((args.length : Nat) : Int) := rfl
    have hdash0 : dash = (((text.drop s).drop 5).head? = some '-') := rfl
    clear_value e n body nn tk1 tk2 args2 args l_
    subst hn hbody htk1 htk2 hargs2 hnn hl0
    cases hf : findSub [';'] (List.drop (s + 6) text) with
    | none =>
      rw [hf] at he
      simp only at he
      have : ¬ e ≥ 0 := by omega
      rw [if_neg this]
    | some k =>
      rw [hf] at he
      simp only at he
      have hge : e ≥ 0 := by omega
      rw [if_pos hge]
      simp only
      have hargs : args = (text.drop (s + 6)).take k := by
        rw [hargs0, he, slice_nat]; congr 1; omega
      have htxt : pySlice text (s : Int) (e + 1) = (text.drop s).take (6 + k + 1) := by
        have : (e + 1) = ((s + (6 + k + 1) : Nat) : Int) := by omega
        rw [this, slice_nat]; congr 1; omega
      have hlen : ((e + 1) - (s : Int)).toNat = 6 + k + 1 := by omega
      rw [htxt, hlen, ← hargs]
      clear hargs0
      cases hent : entNameLen args with
      | none =>
        simp only
        rw [if_neg (by rw [entName_none args hent]; simp)]
      | some ml =>
        simp only
        by_cases hml : ml = (args.length : Int)
        · have hall := (entName_some args ml hent).mp hml
          rw [if_pos hml, if_pos hall]
          have hidx : pyIndex text ((s : Int) + 5) = ((text.drop s).drop 5).head? := by
            simp only [pyIndex, List.drop_drop, List.head?_drop]
            congr 1 <;> omega
          rw [hidx]
          by_cases hd : ((text.drop s).drop 5).head? = some '-'
          · rw [if_pos hd, if_pos hd]
          · rw [if_neg hd, if_neg hd]
            have hfa : pyFind args "-".toList 0 = (match findSub ['-'] args with | some k => (k : Int) | none => -1) := by
              simp only [pyFind, Int.toNat_zero, List.drop_zero]
              rw [show ("-".toList) = ['-'] from rfl]
              cases findSub ['-'] args <;> simp
            rw [hfa]
            cases hnn : findSub ['-'] args with
            | none =>
              simp only
              rw [if_neg (by omega)]
            | some nn =>
              simp only
              have hnn0 : ((nn : Int) ≥ 0) := by omega
              by_cases hlt : nn < args.length - 1
              · have hlt' : (nn : Int) < (args.length : Int) - 1 := by omega
                rw [if_pos ⟨hnn0, hlt'⟩, if_pos hlt]
                have h1 : pySlice args ((nn : Int) + 1) (args.length : Int) = args.drop (nn + 1) := by
                  have : ((nn : Int) + 1) = ((nn + 1 : Nat) : Int) := by omega
                  rw [this, slice_nat, List.take_of_length_le]
                  simp [List.length_drop]
                have h2 : pySlice args 0 (nn : Int) = args.take nn := by
                  have := slice_nat args 0 nn
                  simpa using this
                rw [h1, h2]
                rfl
              · have hlt' : ¬ ((nn : Int) ≥ 0 ∧ (nn : Int) < (args.length : Int) - 1) := by
                  intro h; apply hlt; omega
                rw [if_neg hlt', if_neg hlt]
        · have hall : ¬ (!args.isEmpty && args.all isEntChar) = true := fun h => hml ((entName_some args ml hent).mpr h)
          rw [if_neg hml, if_neg hall]
  · rw [if_neg hc]
    have hL : ¬ (pySlice text (s : Int) ((s : Int) + 5) = "&dtml".toList ∧
        (pySlice text ((s : Int) + 5) ((s : Int) + 6) = ".".toList ∨
         pySlice text ((s : Int) + 5) ((s : Int) + 6) = "-".toList)) := by
      intro ⟨h1, h2⟩
      apply hc
      simp only [Bool.and_eq_true, Bool.or_eq_true, decide_eq_true_eq]
      exact ⟨pe.mp h1, h2.elim (fun h => Or.inl ((hs56 '.').mp h)) (fun h => Or.inr ((hs56 '-').mp h))⟩
    rw [if_neg hL]



/-- **the translated loop body is the model's `candidate`** -/
theorem candidateGen_eq (text : Text) (s : Nat) : candidateGen text (s : Int) = candidate (text.drop s) := by
  have p5 : (pySlice text (s : Int) ((s : Int) + 5) = "<!--#".toList) ↔ "<!--#".toList.isPrefixOf (text.drop s) = true := by
    simpa using slice_prefix text s 5 "<!--#".toList rfl
  have p6 : (pySlice text (s : Int) ((s : Int) + 6) = "<dtml-".toList) ↔ "<dtml-".toList.isPrefixOf (text.drop s) = true := by
    simpa using slice_prefix text s 6 "<dtml-".toList rfl
  have p7 : (pySlice text (s : Int) ((s : Int) + 7) = "</dtml-".toList) ↔ "</dtml-".toList.isPrefixOf (text.drop s) = true := by
    simpa using slice_prefix text s 7 "</dtml-".toList rfl
  unfold candidateGen candidate
  by_cases h5 : "<!--#".toList.isPrefixOf (text.drop s) = true
  · rw [if_pos (p5.mpr h5), if_pos h5, branch0_eq]
    simp only
    cases findSub "-->".toList (List.drop 5 (List.drop s text)) with
    | none => rfl
    | some e =>
      simp only
      cases endMatchLen (List.drop 5 (List.drop s text)) <;> rfl
  · rw [if_neg (fun h => h5 (p5.mp h)), if_neg h5]
    by_cases h6 : "<dtml-".toList.isPrefixOf (text.drop s) = true
    · rw [if_pos (p6.mpr h6), if_pos h6]
      have := branch12_eq text s 6 []
      simp only [branch1Gen]
      exact this
    · rw [if_neg (fun h => h6 (p6.mp h)), if_neg h6]
      by_cases h7 : "</dtml-".toList.isPrefixOf (text.drop s) = true
      · rw [if_pos (p7.mpr h7), if_pos h7]
        have := branch12_eq text s 7 "/".toList
        simp only [branch2Gen]
        exact this
      · rw [if_neg (fun h => h7 (p7.mp h)), if_neg h7, branch3_eq]
        rfl

def isSpecial (c : Char) : Bool := c = '<' || c = '&'

theorem findIdx_none (p : Char → Bool) : ∀ (l : Text), l.findIdx? p = none → ∀ x ∈ l, p x = false := by
  intro l
  induction l with
  | nil => intro _ x hx; simp at hx
  | cons y ys ih =>
    intro h x hx
    rw [List.findIdx?_cons] at h
    by_cases hy : p y = true
    · simp [hy] at h
    · simp only [hy, Bool.false_eq_true, if_false, Option.map_eq_none_iff] at h
      rcases List.mem_cons.mp hx with rfl | hx
      · simpa using hy
      · exact ih h x hx

theorem findIdx_some (p : Char → Bool) : ∀ (l : Text) (i : Nat), l.findIdx? p = some i →
    ∃ pre c post, l = pre ++ c :: post ∧ pre.length = i ∧ p c = true ∧ ∀ x ∈ pre, p x = false := by
  intro l
  induction l with
  | nil => intro i h; simp at h
  | cons y ys ih =>
    intro i h
    rw [List.findIdx?_cons] at h
    by_cases hy : p y = true
    · simp only [hy, if_true, Option.some.injEq] at h
      exact ⟨[], y, ys, by simp, by simp [h], hy, by simp⟩
    · simp only [hy, Bool.false_eq_true, if_false, Option.map_eq_some_iff] at h
      obtain ⟨j, hj, rfl⟩ := h
      obtain ⟨pre, c, post, h1, h2, h3, h4⟩ := ih j hj
      refine ⟨y :: pre, c, post, by simp [h1], by simp [h2], h3, ?_⟩
      intro x hx
      rcases List.mem_cons.mp hx with rfl | hx
      · simpa using hy
      · exact h4 x hx

theorem scanHtml_none_of_plain : ∀ (l : Text), (∀ x ∈ l, isSpecial x = false) → scanHtml l = none := by
  intro l
  induction l with
  | nil => intro _; rfl
  | cons c t ih =>
    intro h
    have hc : isSpecial c = false := h c (by simp)
    have hc' : ¬ ((c = '<' || c = '&') = true) := by simpa [isSpecial] using hc
    simp only [scanHtml]
    rw [if_neg (by simpa using hc')]
    rw [ih (fun x hx => h x (by simp [hx]))]
    rfl

theorem scanHtml_skip : ∀ (pre rest : Text), (∀ x ∈ pre, isSpecial x = false) →
    scanHtml (pre ++ rest) = (scanHtml rest).map (fun r => (pre ++ r.1, r.2.1, r.2.2)) := by
  intro pre
  induction pre with
  | nil => intro rest _; simp only [List.nil_append]; cases scanHtml rest <;> simp
  | cons c t ih =>
    intro rest h
    have hc : isSpecial c = false := h c (by simp)
    have hc' : ¬ ((c = '<' || c = '&') = true) := by simpa [isSpecial] using hc
    simp only [List.cons_append, scanHtml]
    rw [if_neg (by simpa using hc'), ih rest (fun x hx => h x (by simp [hx]))]
    cases h2 : scanHtml rest <;> simp


/-- **the outer loop of `search` is `scanHtml`**: with enough fuel, `searchGen text fuel start` finds the tag `scanHtml` finds
in the text from `start` on, at the offset `start +` the length of the literal before it -/
theorem searchGen_eq (text : Text) : ∀ (fuel start : Nat), text.length - start < fuel →
    searchGen text fuel start =
      (scanHtml (text.drop start)).map (fun r => (start + r.1.length, r.2.1)) := by
  intro fuel
  induction fuel with
  | zero => intro start h; omega
  | succ f ih =>
    intro start hf
    simp only [searchGen, startSearchAt]
    cases hfi : (text.drop start).findIdx? (fun c => c = '<' || c = '&') with
    | none =>
      have hplain := findIdx_none _ _ hfi
      rw [scanHtml_none_of_plain _ (fun x hx => by simpa [isSpecial] using hplain x hx)]
      rfl
    | some i =>
      obtain ⟨pre, c, post, h1, h2, h3, h4⟩ := findIdx_some _ _ i hfi
      simp only [Option.map_some]
      have hdrop : text.drop (i + start) = c :: post := by
        have : text.drop (i + start) = (text.drop start).drop i := by rw [List.drop_drop]; congr 1; omega
        rw [this, h1, ← h2]
        simp
      have hcast : candidateGen text ((i + start : Nat) : Int) = candidate (c :: post) := by
        rw [candidateGen_eq, hdrop]
      rw [hcast, h1, scanHtml_skip pre (c :: post) (fun x hx => by simpa [isSpecial] using h4 x hx)]
      have hc : (c = '<' || c = '&') = true := by simpa using h3
      simp only [scanHtml, hc, if_true]
      cases hcand : candidate (c :: post) with
      | tok len tk =>
        simp only [Option.map_some, List.append_nil]
        congr 2
        omega
      | skip =>
        simp only
        have hlen : text.length - (i + start + 1) < f := by
          have : (text.drop start).length = pre.length + 1 + post.length := by rw [h1]; simp; omega
          simp only [List.length_drop] at this
          omega
        rw [ih (i + start + 1) hlen]
        have hd2 : text.drop (i + start + 1) = post := by
          have : text.drop (i + start + 1) = (text.drop (i + start)).drop 1 := by rw [List.drop_drop]
          rw [this, hdrop]; rfl
        rw [hd2]
        cases scanHtml post with
        | none => rfl
        | some r =>
          simp only [Option.map_some, List.length_append, List.length_cons]
          congr 2
          omega

end DTML.Lemmas.ScanGen
