/-
Lemmas for the obligations on `GenVarInit` (the translation of `DT_Var.Var.__init__`): the attribute dictionary a
dtml-var tag described by a `VarPipe.Spec` / by a `Render.Blk.var` cell parses to, and what the tests of the source
(`len(args)`, `'html_quote' in args`, the filter of the modifiers) see in it.
-/
import DTML.GenVarInit
import DTML.VarPipe
set_option linter.unusedVariables false
namespace DTML.Lemmas.VarInit
open DTML.Scan DTML.Parse DTML.GenVarInit

/-- one optional attribute written with a value -/
def optParam (k : String) (v : Option Text) : Params :=
  match v with
  | some t => [(k, .str t)]
  | none => []

/-- the dictionary `parse_params` returns for the tag a `VarPipe.Spec` describes (what `harness/varpipe.tag_source`
writes): the unnamed value, every option name written (without a value: the table's default `1`; written twice it is
still one key), and the attributes that carry a value -/
def paramsOf (sp : VarPipe.Spec) : Params :=
  ("", .str ['x']) :: ((sp.written.eraseDups.map fun m => (m, PVal.dflt "1")) ++
    (optParam "fmt" sp.fmt ++ optParam "size" sp.size ++ optParam "etc" sp.etc ++ optParam "null" sp.null ++
      optParam "missing" sp.missing))

/-- the dictionary of the tag a `.var src hq missing null` cell of the interpreter model stands for: the name (unnamed
value) or `expr=`, `html_quote` (written, or implied by the entity syntax `&dtml-x;`), `missing=`, `null=` -/
def blkParams (isExpr : Bool) (target : Text) (hq : Bool) (missing null : Option Text) : Params :=
  (if isExpr then ("expr", .str target) else ("", .str target)) ::
    ((if hq then [("html_quote", PVal.dflt "1")] else []) ++ optParam "missing" missing ++ optParam "null" null)

theorem optParam_length (k : String) (v : Option Text) : (optParam k v).length = if v.isSome then 1 else 0 := by
  cases v <;> rfl

theorem has_append (a b : Params) (k : String) : (a ++ b : Params).has k = (a.has k || b.has k) := by
  unfold Params.has
  rw [List.lookup_append]
  cases List.lookup k a <;> simp

theorem lookup_flags (l : List String) (k : String) :
    List.lookup k (l.map fun m => (m, PVal.dflt "1")) = if l.contains k then some (PVal.dflt "1") else none := by
  induction l with
  | nil => rfl
  | cons a t ih =>
    simp only [List.map_cons, List.lookup_cons, List.contains_cons, ih]
    by_cases h : k = a
    · subst h; simp
    · have : (k == a) = false := by simpa using h
      simp [this]

theorem has_flags (l : List String) (k : String) :
    Params.has (l.map fun m => (m, PVal.dflt "1")) k = l.contains k := by
  unfold Params.has
  rw [lookup_flags]
  cases l.contains k <;> rfl

theorem contains_eraseDups (l : List String) (k : String) : l.eraseDups.contains k = l.contains k := by
  rw [Bool.eq_iff_iff]
  simp [List.mem_eraseDups]

theorem has_optParam (k' : String) (v : Option Text) (k : String) (h : k ≠ k') : Params.has (optParam k' v) k = false := by
  cases v with
  | none => rfl
  | some t =>
    have : (k == k') = false := by simpa using h
    simp [optParam, Params.has, List.lookup, this]

/-- a key that is none of the value-carrying attributes is in the dictionary exactly when it was written -/
theorem has_paramsOf (sp : VarPipe.Spec) (k : String)
    (hk : k ∉ ["", "fmt", "size", "etc", "null", "missing"]) :
    (paramsOf sp).has k = sp.written.contains k := by
  simp only [List.mem_cons, List.not_mem_nil, or_false, not_or] at hk
  obtain ⟨h0, h1, h2, h3, h4, h5⟩ := hk
  have e0 : (k == "") = false := by simpa using h0
  have hd : ∀ rest : Params, Params.has (("", PVal.str ['x']) :: rest) k = Params.has rest k := by
    intro rest; simp [Params.has, List.lookup, e0]
  unfold paramsOf
  rw [hd, has_append, has_append, has_append, has_append, has_append, has_flags, contains_eraseDups,
    has_optParam _ _ _ h1, has_optParam _ _ _ h2, has_optParam _ _ _ h3, has_optParam _ _ _ h4, has_optParam _ _ _ h5]
  simp

theorem lookup_paramsOf (sp : VarPipe.Spec) (k : String) (hk : k ≠ "") (hw : sp.written.contains k = true) :
    List.lookup k (paramsOf sp) = some (PVal.dflt "1") := by
  have e0 : (k == "") = false := by simpa using hk
  unfold paramsOf
  rw [List.lookup_cons, e0]
  simp only [List.lookup_append, lookup_flags, contains_eraseDups, hw, if_true]
  rfl

theorem paramsOf_length (sp : VarPipe.Spec) :
    (paramsOf sp).length = 1 + sp.written.eraseDups.length + (if sp.missing.isSome then 1 else 0) +
      (if sp.null.isSome then 1 else 0) + (if sp.fmt.isSome then 1 else 0) +
      (if sp.size.isSome then 1 else 0) + (if sp.etc.isSome then 1 else 0) := by
  simp only [paramsOf, List.length_cons, List.length_append, List.length_map, optParam_length]
  omega

theorem modifiers_not_valued : ∀ m ∈ Gen.modifiers, m ∉ ["", "fmt", "size", "etc", "null", "missing"] := by decide

theorem take_eq_iff_isPrefixOf (p l : Text) : (l.take p.length = p) ↔ p.isPrefixOf l = true := by
  rw [List.isPrefixOf_iff_prefix, List.prefix_iff_eq_take]
  exact eq_comm

end DTML.Lemmas.VarInit
