/-
Specifications of the taint bookkeeping of DT_Var (hand-written) for the definitions that harness/trans_taint.py generates
from the source on every run (DTML/GenTaint.lean), and the primitives of the model (`VarPipe`) they are instantiated with.
Props/C04 proves: generated = specification (for every primitive), specification at the model's primitives = the stage
functions of `VarPipe`.
-/
import DTML.GenTaint
namespace DTML.Lemmas.Taint
open DTML.Quote DTML.VarPipe DTML.GenTaint

/-- a string value as the pair (text, mark) the stage functions of the model work on -/
def pairOf (v : Val) : Text × Bool :=
  match v with
  | .str s t => (s, t)
  | v => (ustr v, false)

def valOf (p : Text × Bool) : Val := .str p.1 p.2

/-! ### specifications over arbitrary primitives -/

/-- the C-style format stage: `'s'` keeps a TaintedString and makes a plain string of anything else; any other code
formats and marks the result again when the value was marked and the result holds a `<` -/
def cfmtSpec (P : Prims) (cfmt : Text) (v : Val) : Option (R Val) :=
  if cfmt = ['s'] then some (.ok (if isTainted v then v else strOf v))
  else
    match P.pctC cfmt v with
    | none => none
    | some (.error e) => some (.error e)
    | some (.ok r) => some (.ok (if isTainted v && hasLt (ustr r) then .str (ustr r) true else r))

/-- the `fmt=` chain -/
def fmtSpec (P : Prims) (fmt : Text) (v : Val) : Option (R Val) :=
  if P.hasAttr v fmt then P.callMethod v fmt
  else if P.isSpecial fmt then
    (if fmt = "html-quote".toList ∧ isTainted v = true then some (.ok v) else P.special fmt v)
  else if fmt = [] then some (.ok (.str [] false))
  else
    match P.pct fmt v with
    | none => none
    | some (.error e) => some (.error e)
    | some (.ok r) => some (.ok (if isTainted v then .str (ustr r) true else r))

/-- one pass of the loop over the modifiers: html_quote leaves a TaintedString alone -/
def modStepSpec (call : String → Val → Val) (f : String) (v : Val) : Val :=
  if f = "html_quote" ∧ isTainted v = true then v else call f v

/-! ### the primitives of the model -/

/-- `('%' + self.fmt) % (val,)` as `VarPipe.cfmtStage` knows it (`%d` of an integer; `%d` of a TaintedString is outside
the model) -/
def modelPctC (cfmt : Text) (v : Val) : Option (R Val) :=
  if cfmt = ['d'] then
    match v with
    | .int i => some (.ok (.str (intRepr i) false))
    | .str _ true => none
    | _ => some (.error .typeError)
  else none

/-- `_get(val, fmt)()` -/
def modelCallMethod (x : Ext) (v : Val) (fmt : Text) : Option (R Val) :=
  let f := String.ofList fmt
  match v with
  | .str s t =>
    some (.ok (.str (if f = "upper" then x.upper s else if f = "lower" then x.lower s else x.capitalize s) t))
  | .obj _ _ ms => some (.ok (.str ((ms.lookup f).getD []) false))
  | _ => none

/-- `special_formats[fmt](val, name, md)`: the functions themselves (html-quote quotes whatever it is given) -/
def modelSpecial (x : Ext) (fmt : Text) (v : Val) : Option (R Val) :=
  let f := String.ofList fmt
  let tainted := isTainted v
  if f = "html-quote" then some (.ok (.str (escape (ustr v)) false))
  else if f = "sql-quote" then
    match v with
    | .str s t => some (.ok (retaint (sqlQuote s) t))
    | _ => some (.error .attributeError)
  else if f = "url-quote" then some (.ok (.str (x.urlQuote (ustr v)) false))
  else if f = "url-quote-plus" then some (.ok (.str (x.urlQuotePlus (ustr v)) false))
  else if f = "url-unquote" then some (.ok (retaint (x.urlUnquote (ustr v)) tainted))
  else if f = "url-unquote-plus" then some (.ok (retaint (x.urlUnquotePlus (ustr v)) tainted))
  else if f = "multi-line" then
    some (.ok (.str (newlineToBr (if tainted then escape (ustr v) else ustr v)) false))
  else if f = "comma-numeric" then some (.ok (retaint (thousandsCommas (ustr v)) tainted))
  else if f = "whole-dollars" then some (.ok (.str (wholeDollars v) false))
  else if f = "dollars-and-cents" then some (.ok (.str (dollarsAndCents v) false))
  else if f = "dollars-with-commas" then some (.ok (.str (thousandsCommas (wholeDollars v)) false))
  else if f = "dollars-and-cents-with-commas" then
    some (.ok (.str (thousandsCommas (dollarsAndCents v)) false))
  else if f = "collection-length" then
    match v with
    | .str s _ => some (.ok (.str (intRepr s.length) false))
    | _ => some (.error .typeError)
  else none

def modelPrims (x : Ext) : Prims where
  hasAttr v fmt := hasMethod v (String.ofList fmt)
  callMethod := modelCallMethod x
  isSpecial fmt := Gen.specialFormats.contains (String.ofList fmt)
  special := modelSpecial x
  pct fmt v := (pyFormat fmt v).map (fun r => r.map (fun s => Val.str s false))
  pctC := modelPctC

/-- `f(val)` for a modifier by name: html_quote is the function itself (it quotes whatever it is given - that a
TaintedString never reaches it is the guard of the loop), the others as `VarPipe.applyMod` has them -/
def modelCall (x : Ext) (m : String) (v : Val) : Val :=
  if m = "html_quote" then .str (escape (ustr v)) false
  else valOf (applyMod x m (pairOf v).1 (pairOf v).2)

theorem bindM_pure (m : Option (R Val)) : bindM m (fun v => pureM v) = m := by
  unfold bindM pureM
  split <;> rfl

theorem isTainted_eq (v : Val) : (match v with | .str _ t => t | _ => false) = isTainted v := by
  cases v <;> rfl

theorem ofList_eq_iff (l : Text) (s : String) : String.ofList l = s ↔ l = s.toList := by
  constructor
  · intro h; rw [← h]; simp
  · intro h; rw [h]; simp

end DTML.Lemmas.Taint
