/-
Abstraction maps between the translation of dtml-in's sort machinery (GenSort.lean, regenerated from DT_In.py on every
run) and the model of Sort.lean, and the lemmas the obligations of Props/C13 rest on.
-/
import DTML.GenSort
set_option linter.unusedVariables false
namespace DTML.Lemmas.SortGen
open DTML.Sort DTML.GenSort

/-! #### comparison results: Python's negative / zero / positive integer against `Ordering` -/

/-- what `cmp` hands back for an `Ordering` -/
def intOfOrd : Ordering → Int
  | .lt => -1
  | .eq => 0
  | .gt => 1

/-- how `functools.cmp_to_key` reads an integer -/
def ordOfInt (n : Int) : Ordering := if n < 0 then .lt else if n = 0 then .eq else .gt

theorem ordOfInt_intOfOrd (c : Ordering) : ordOfInt (intOfOrd c) = c := by cases c <;> rfl

theorem intOfOrd_eq_zero (c : Ordering) : intOfOrd c = 0 ↔ c = .eq := by cases c <;> simp [intOfOrd]

/-- the comparison function of a field (`cmp`, `nocase`, one from the namespace) on two keys, as the Python function
`SortBy` calls: the model's comparison of the field with the direction left out -/
def funcOf (lower : Text → Text) (kind : CmpKind) : PV → PV → Option Int
  | .key a, .key b => some (intOfOrd (cmpField lower ⟨kind, false⟩ a b))
  | _, _ => none

/-- the multiplier of a direction -/
def multOf (desc : Bool) : Int := if desc then -1 else 1

/-- the entry of `sf_list` a field of the model stands for -/
def sfOf (lower : Text → Text) (nf : Text × Field) : SortFn := ⟨nf.1, funcOf lower nf.2.kind, multOf nf.2.desc⟩

theorem intOfOrd_mul (lower : Text → Text) (k : CmpKind) (d : Bool) (a b : Option Key) :
    intOfOrd (cmpField lower ⟨k, false⟩ a b) * multOf d = intOfOrd (cmpField lower ⟨k, d⟩ a b) := by
  cases d
  · simp [multOf]
  · have h : cmpField lower ⟨k, true⟩ a b = (cmpField lower ⟨k, false⟩ a b).swap := by simp [cmpField]
    rw [h]; cases cmpField lower ⟨k, false⟩ a b <;> simp [intOfOrd, multOf, Ordering.swap]

theorem cmpField_false_eq (lower : Text → Text) (k : CmpKind) (d : Bool) (a b : Option Key) :
    cmpField lower ⟨k, false⟩ a b = .eq ↔ cmpField lower ⟨k, d⟩ a b = .eq := by
  cases d
  · exact Iff.rfl
  · have h : cmpField lower ⟨k, true⟩ a b = (cmpField lower ⟨k, false⟩ a b).swap := by simp [cmpField]
    rw [h]; cases cmpField lower ⟨k, false⟩ a b <;> simp [Ordering.swap]

/-- the loop of `SortBy.__call__` from index `s` on is the model's comparison of the remaining fields -/
theorem loop_keys (lower : Text → Text) (nfs : List (Text × Field)) (k1 k2 : List (Option Key))
    (h1 : k1.length = nfs.length) (h2 : k2.length = nfs.length) :
    ∀ (n s : Nat), s + n = nfs.length →
      sortByLoopGen (nfs.map (sfOf lower)) (.keys k1) (.keys k2) (List.range' s n) =
        some (intOfOrd (cmpKeys lower ((nfs.drop s).map (·.2)) (k1.drop s) (k2.drop s))) := by
  intro n
  induction n with
  | zero =>
    intro s hs
    have : nfs.drop s = [] := List.drop_eq_nil_of_le (by omega)
    simp [List.range', sortByLoopGen, this, cmpKeys, intOfOrd]
  | succ n ih =>
    intro s hs
    have hs0 : s < nfs.length := by omega
    have e0 : nfs.drop s = nfs[s] :: nfs.drop (s + 1) := List.drop_eq_getElem_cons hs0
    have e1 : k1.drop s = k1[s] :: k1.drop (s + 1) := List.drop_eq_getElem_cons (by omega)
    have e2 : k2.drop s = k2[s] :: k2.drop (s + 1) := List.drop_eq_getElem_cons (by omega)
    have i1 : k1[s]? = some k1[s] := List.getElem?_eq_getElem (by omega)
    have i2 : k2[s]? = some k2[s] := List.getElem?_eq_getElem (by omega)
    have i0 : (nfs.map (sfOf lower))[s]? = some (sfOf lower nfs[s]) := by
      rw [List.getElem?_map, List.getElem?_eq_getElem hs0]; rfl
    have r := ih (s + 1) (by omega)
    rw [List.range'_succ, sortByLoopGen]
    simp only [PV.index, i1, i2, i0, Option.map_some, Option.bind_some, sfOf, funcOf, r, e0, e1, e2, List.map_cons,
      cmpKeys, List.head?_cons, Option.join_some, List.tail_cons]
    rw [intOfOrd_mul]
    by_cases hc : cmpField lower ⟨(nfs[s]).2.kind, false⟩ k1[s] k2[s] = .eq
    · have hd := (cmpField_false_eq lower (nfs[s]).2.kind (nfs[s]).2.desc k1[s] k2[s]).1 hc
      simp [hc, intOfOrd, hd, Ordering.then]
    · have hd : cmpField lower ⟨(nfs[s]).2.kind, (nfs[s]).2.desc⟩ k1[s] k2[s] ≠ .eq :=
        fun h => hc ((cmpField_false_eq lower _ _ _ _).2 h)
      have hz : intOfOrd (cmpField lower ⟨(nfs[s]).2.kind, false⟩ k1[s] k2[s]) ≠ 0 :=
        fun h => hc ((intOfOrd_eq_zero _).1 h)
      simp only [ne_eq, hz, not_false_eq_true, if_true]
      cases hx : cmpField lower ⟨(nfs[s]).2.kind, (nfs[s]).2.desc⟩ k1[s] k2[s] <;> simp_all [Ordering.then]

/-! #### key extraction: what an `AttrVal` of the model stands for, and the key an extracted value is -/

/-- what `v.get(sk)` / `getattr(v, sk)` finds for an `AttrVal` of the model (`none`: no such key / attribute); `t`: the type of
a plain value, `rt`: the type of what a callable returns -/
def conc (t rt : PyType) : AttrVal → Option PyVal
  | .plain k => some (.val t k)
  | .noneVal => some .noneV
  | .missing => none
  | .callable k => some (.callable (.ret rt k))
  | .nonbasic k => some (.val .other k)

/-- the key of the model an extracted value is (`some none` = `_Smallest`); `none`: not a key of the model (None itself, a
function object) -/
def absKey : PyVal → Option (Option Key)
  | .smallest => some none
  | .val _ k => some (some k)
  | _ => none

/-- what the element answers under the name, through the interface `mapping` selects -/
def look (mapping : Bool) (v : PyObj) (name : Text) : Option PyVal := if mapping then v.items name else v.attrs name

theorem other_not_basic : basicTypes.contains PyType.other = false := by decide

theorem fn_not_basic : ¬ PyType.function ∈ basicTypes := by decide

theorem single_conc (mapping : Bool) (v : PyObj) (sort : Text) (t rt : PyType) (a : AttrVal)
    (h : look mapping v sort = conc t rt a) :
    (extractKeySingleGen mapping v sort).bind absKey = some (extract a) := by
  cases mapping <;> cases a <;> simp only [look, conc, Bool.false_eq_true, if_false, if_true] at h <;>
    simp [extractKeySingleGen, PyObj.get, PyObj.getattr, h, PyVal.typeOf, PyVal.call, PyVal.isCallable, PyVal.isNone,
      absKey, extract, fn_not_basic] <;>
    (split <;> simp [PyVal.call, PyVal.isCallable, PyVal.isNone, absKey])

theorem multi_conc (mapping : Bool) (v : PyObj) (sk : Text) (t rt : PyType) (a : AttrVal) (ht : t ≠ .list)
    (h : look mapping v sk = conc t rt a) :
    (extractKeyMultiGen mapping v sk).bind absKey = some (extract a) := by
  have hv : ∀ k, typeTableHasValue basicTypes (.val t k) = some false := by
    intro k; cases t <;> first | rfl | exact absurd rfl ht
  have hn : typeTableHasValue basicTypes .noneV = some false := rfl
  have ho : ∀ k, typeTableHasValue basicTypes (.val .other k) = some false := fun _ => rfl
  have hc : ∀ r, typeTableHasValue basicTypes (.callable r) = some false := fun _ => rfl
  cases mapping <;> cases a <;> simp only [look, conc, Bool.false_eq_true, if_false, if_true] at h <;>
    simp [extractKeyMultiGen, PyObj.get, PyObj.getattr, h, hv, hn, hc, ho, PyVal.call, PyVal.isNone, absKey, extract]

theorem keys_loop (mapping : Bool) (v : PyObj) (t rt : PyType) (ht : t ≠ .list) :
    ∀ (fas : List (Text × AttrVal)) (k : List PyVal), (∀ p ∈ fas, look mapping v p.1 = conc t rt p.2) →
      ∃ ks, extractKeysLoopGen mapping v k (fas.map (·.1)) = some (k ++ ks) ∧
        ks.map absKey = fas.map (fun p => some (extract p.2)) := by
  intro fas
  induction fas with
  | nil => intro k _; exact ⟨[], by simp [extractKeysLoopGen], rfl⟩
  | cons p fas ih =>
    intro k h
    have hp := multi_conc mapping v p.1 t rt p.2 ht (h p (List.mem_cons_self ..))
    cases hx : extractKeyMultiGen mapping v p.1 with
    | none => simp [hx] at hp
    | some x =>
      rw [hx] at hp
      obtain ⟨ks, h1, h2⟩ := ih (k ++ [x]) (fun q hq => h q (List.mem_cons_of_mem _ hq))
      refine ⟨x :: ks, ?_, ?_⟩
      · simp only [List.map_cons, extractKeysLoopGen, hx, Option.bind_some, h1]; simp
      · simpa [h2] using hp

/-! #### make_sortfunctions: the entry of `sf_list` a parsed option stands for -/

def entryOf (s : FieldSpec) : SfEntry := (s.key, s.func, multOf s.desc)

theorem field_parts (lower : Text → Text) (field : Text) :
    (makeSortFieldGen lower field).toOption = (parseOption lower field).map entryOf := by
  unfold makeSortFieldGen parseOption
  generalize splitOn '/' field = f
  rcases f with _ | ⟨k, _ | ⟨fn, _ | ⟨d, _ | ⟨x, r⟩⟩⟩⟩
  · simp [parseParts, Except.bind, Except.toOption]
  ·
    by_cases a1 : lower ['a', 's', 'c'] = ['a', 's', 'c']
    · simp [a1, parseParts, mkSpec, descOfWord, funcOfName, idx, Except.bind, Except.toOption, entryOf, multOf]
    · by_cases a2 : lower ['a', 's', 'c'] = ['d', 'e', 's', 'c'] <;> simp [a1, a2, parseParts, mkSpec, descOfWord, funcOfName, idx, Except.bind, Except.toOption, entryOf, multOf]
  ·
    by_cases f1 : fn = ['c', 'm', 'p']
    · subst f1
      by_cases a1 : lower ['a', 's', 'c'] = ['a', 's', 'c']
      · simp [a1, parseParts, mkSpec, descOfWord, funcOfName, idx, Except.bind, Except.toOption, entryOf, multOf]
      · by_cases a2 : lower ['a', 's', 'c'] = ['d', 'e', 's', 'c'] <;> simp [a1, a2, parseParts, mkSpec, descOfWord, funcOfName, idx, Except.bind, Except.toOption, entryOf, multOf]
    by_cases f2 : fn = ['n', 'o', 'c', 'a', 's', 'e']
    · subst f2
      by_cases a1 : lower ['a', 's', 'c'] = ['a', 's', 'c']
      · simp [f1, a1, parseParts, mkSpec, descOfWord, funcOfName, idx, Except.bind, Except.toOption, entryOf, multOf]
      · by_cases a2 : lower ['a', 's', 'c'] = ['d', 'e', 's', 'c'] <;> simp [f1, a1, a2, parseParts, mkSpec, descOfWord, funcOfName, idx, Except.bind, Except.toOption, entryOf, multOf]
    by_cases f3 : fn = ['l', 'o', 'c', 'a', 'l', 'e']
    · subst f3
      by_cases a1 : lower ['a', 's', 'c'] = ['a', 's', 'c']
      · simp [f1, f2, a1, parseParts, mkSpec, descOfWord, funcOfName, idx, Except.bind, Except.toOption, entryOf, multOf]
      · by_cases a2 : lower ['a', 's', 'c'] = ['d', 'e', 's', 'c'] <;> simp [f1, f2, a1, a2, parseParts, mkSpec, descOfWord, funcOfName, idx, Except.bind, Except.toOption, entryOf, multOf]
    by_cases f4 : fn = ['s', 't', 'r', 'c', 'o', 'l', 'l']
    · subst f4
      by_cases a1 : lower ['a', 's', 'c'] = ['a', 's', 'c']
      · simp [f1, f2, f3, a1, parseParts, mkSpec, descOfWord, funcOfName, idx, Except.bind, Except.toOption, entryOf, multOf]
      · by_cases a2 : lower ['a', 's', 'c'] = ['d', 'e', 's', 'c'] <;> simp [f1, f2, f3, a1, a2, parseParts, mkSpec, descOfWord, funcOfName, idx, Except.bind, Except.toOption, entryOf, multOf]
    by_cases f5 : fn = ['l', 'o', 'c', 'a', 'l', 'e', '_', 'n', 'o', 'c', 'a', 's', 'e']
    · subst f5
      by_cases a1 : lower ['a', 's', 'c'] = ['a', 's', 'c']
      · simp [f1, f2, f3, f4, a1, parseParts, mkSpec, descOfWord, funcOfName, idx, Except.bind, Except.toOption, entryOf, multOf]
      · by_cases a2 : lower ['a', 's', 'c'] = ['d', 'e', 's', 'c'] <;> simp [f1, f2, f3, f4, a1, a2, parseParts, mkSpec, descOfWord, funcOfName, idx, Except.bind, Except.toOption, entryOf, multOf]
    by_cases f6 : fn = ['s', 't', 'r', 'c', 'o', 'l', 'l', '_', 'n', 'o', 'c', 'a', 's', 'e']
    · subst f6
      by_cases a1 : lower ['a', 's', 'c'] = ['a', 's', 'c']
      · simp [f1, f2, f3, f4, f5, a1, parseParts, mkSpec, descOfWord, funcOfName, idx, Except.bind, Except.toOption, entryOf, multOf]
      · by_cases a2 : lower ['a', 's', 'c'] = ['d', 'e', 's', 'c'] <;> simp [f1, f2, f3, f4, f5, a1, a2, parseParts, mkSpec, descOfWord, funcOfName, idx, Except.bind, Except.toOption, entryOf, multOf]
    by_cases a1 : lower ['a', 's', 'c'] = ['a', 's', 'c']
    · simp [f1, f2, f3, f4, f5, f6, a1, parseParts, mkSpec, descOfWord, funcOfName, idx, Except.bind, Except.toOption, entryOf, multOf]
    · by_cases a2 : lower ['a', 's', 'c'] = ['d', 'e', 's', 'c'] <;> simp [f1, f2, f3, f4, f5, f6, a1, a2, parseParts, mkSpec, descOfWord, funcOfName, idx, Except.bind, Except.toOption, entryOf, multOf]
  ·
    by_cases f1 : fn = ['c', 'm', 'p']
    · subst f1
      by_cases a1 : lower d = ['a', 's', 'c']
      · simp [a1, parseParts, mkSpec, descOfWord, funcOfName, idx, Except.bind, Except.toOption, entryOf, multOf]
      · by_cases a2 : lower d = ['d', 'e', 's', 'c'] <;> simp [a1, a2, parseParts, mkSpec, descOfWord, funcOfName, idx, Except.bind, Except.toOption, entryOf, multOf]
    by_cases f2 : fn = ['n', 'o', 'c', 'a', 's', 'e']
    · subst f2
      by_cases a1 : lower d = ['a', 's', 'c']
      · simp [f1, a1, parseParts, mkSpec, descOfWord, funcOfName, idx, Except.bind, Except.toOption, entryOf, multOf]
      · by_cases a2 : lower d = ['d', 'e', 's', 'c'] <;> simp [f1, a1, a2, parseParts, mkSpec, descOfWord, funcOfName, idx, Except.bind, Except.toOption, entryOf, multOf]
    by_cases f3 : fn = ['l', 'o', 'c', 'a', 'l', 'e']
    · subst f3
      by_cases a1 : lower d = ['a', 's', 'c']
      · simp [f1, f2, a1, parseParts, mkSpec, descOfWord, funcOfName, idx, Except.bind, Except.toOption, entryOf, multOf]
      · by_cases a2 : lower d = ['d', 'e', 's', 'c'] <;> simp [f1, f2, a1, a2, parseParts, mkSpec, descOfWord, funcOfName, idx, Except.bind, Except.toOption, entryOf, multOf]
    by_cases f4 : fn = ['s', 't', 'r', 'c', 'o', 'l', 'l']
    · subst f4
      by_cases a1 : lower d = ['a', 's', 'c']
      · simp [f1, f2, f3, a1, parseParts, mkSpec, descOfWord, funcOfName, idx, Except.bind, Except.toOption, entryOf, multOf]
      · by_cases a2 : lower d = ['d', 'e', 's', 'c'] <;> simp [f1, f2, f3, a1, a2, parseParts, mkSpec, descOfWord, funcOfName, idx, Except.bind, Except.toOption, entryOf, multOf]
    by_cases f5 : fn = ['l', 'o', 'c', 'a', 'l', 'e', '_', 'n', 'o', 'c', 'a', 's', 'e']
    · subst f5
      by_cases a1 : lower d = ['a', 's', 'c']
      · simp [f1, f2, f3, f4, a1, parseParts, mkSpec, descOfWord, funcOfName, idx, Except.bind, Except.toOption, entryOf, multOf]
      · by_cases a2 : lower d = ['d', 'e', 's', 'c'] <;> simp [f1, f2, f3, f4, a1, a2, parseParts, mkSpec, descOfWord, funcOfName, idx, Except.bind, Except.toOption, entryOf, multOf]
    by_cases f6 : fn = ['s', 't', 'r', 'c', 'o', 'l', 'l', '_', 'n', 'o', 'c', 'a', 's', 'e']
    · subst f6
      by_cases a1 : lower d = ['a', 's', 'c']
      · simp [f1, f2, f3, f4, f5, a1, parseParts, mkSpec, descOfWord, funcOfName, idx, Except.bind, Except.toOption, entryOf, multOf]
      · by_cases a2 : lower d = ['d', 'e', 's', 'c'] <;> simp [f1, f2, f3, f4, f5, a1, a2, parseParts, mkSpec, descOfWord, funcOfName, idx, Except.bind, Except.toOption, entryOf, multOf]
    by_cases a1 : lower d = ['a', 's', 'c']
    · simp [f1, f2, f3, f4, f5, f6, a1, parseParts, mkSpec, descOfWord, funcOfName, idx, Except.bind, Except.toOption, entryOf, multOf]
    · by_cases a2 : lower d = ['d', 'e', 's', 'c'] <;> simp [f1, f2, f3, f4, f5, f6, a1, a2, parseParts, mkSpec, descOfWord, funcOfName, idx, Except.bind, Except.toOption, entryOf, multOf]
  · have h1 : ¬ (((k :: fn :: d :: x :: r).length : Int) = 1) := by simp only [List.length_cons]; omega
    have h2 : ¬ (((k :: fn :: d :: x :: r).length : Int) = 2) := by simp only [List.length_cons]; omega
    have h3 : ¬ (((k :: fn :: d :: x :: r).length : Int) = 3) := by simp only [List.length_cons]; omega
    simp only [h1, h2, h3, if_false, parseParts, Except.bind, Except.toOption, Option.map_none]

theorem fields_loop (lower : Text → Text) : ∀ (fs : List Text) (acc : List SfEntry),
    (makeSortFunctionsLoopGen lower acc fs).toOption =
      (parseOptions lower fs).map (fun l => acc ++ l.map entryOf) := by
  intro fs
  induction fs with
  | nil => intro acc; simp [makeSortFunctionsLoopGen, parseOptions, Except.toOption]
  | cons o os ih =>
    intro acc
    have hf := field_parts lower o
    cases hx : makeSortFieldGen lower o with
    | error e =>
      rw [hx] at hf
      cases hp : parseOption lower o with
      | none => simp [makeSortFunctionsLoopGen, parseOptions, hx, hp, Except.bind, Except.toOption]
      | some f => rw [hp] at hf; simp [Except.toOption] at hf
    | ok e =>
      rw [hx] at hf
      cases hp : parseOption lower o with
      | none => rw [hp] at hf; simp [Except.toOption] at hf
      | some f =>
        rw [hp] at hf
        have he : e = entryOf f := by simpa [Except.toOption] using hf
        subst he
        simp only [makeSortFunctionsLoopGen, hx, Except.bind, parseOptions, hp, ih]
        cases parseOptions lower os <;> simp

end DTML.Lemmas.SortGen
