/-
Printing and re-scanning: a document printed from a list of (literal, tag) items — in the
`<dtml-…>` spelling or in the `<!--#…-->` spelling — is scanned back into exactly these items.
Helper lemmas for Props/C01 (literal text comes back verbatim from the source text itself) and
Props/C07 (the spellings of a whole document give the same token stream).
-/
import DTML.Scan
set_option linter.unusedVariables false
namespace DTML.Lemmas.Print
open DTML.Scan

/-! ### literal text -/

/-- literal text in which no tag can start -/
def CleanLit (l : Text) : Prop := ∀ c ∈ l, c ≠ '<' ∧ c ≠ '&'

theorem scanHtml_lit (l s : Text) (h : CleanLit l) :
    scanHtml (l ++ s) = (scanHtml s).map (fun (x : Text × Tok × Text) => (l ++ x.1, x.2.1, x.2.2)) := by
  induction l with
  | nil =>
    simp only [List.nil_append]
    cases scanHtml s <;> simp
  | cons c t ih =>
    have hc := h c (List.mem_cons_self ..)
    have ht := ih (fun d hd => h d (List.mem_cons_of_mem _ hd))
    simp only [List.cons_append, scanHtml, hc.1, hc.2, decide_false, Bool.or_self, Bool.false_eq_true, if_false, ht,
      Option.map_map]
    cases scanHtml s <;> simp

theorem scanHtml_clean (l : Text) (h : CleanLit l) : scanHtml l = none := by
  have := scanHtml_lit l [] h
  simpa [scanHtml] using this

theorem scanHtml_tag (s : Text) (len : Nat) (tk : Tok) (hs : s.head? = some '<')
    (hc : candidate s = .tok len tk) : scanHtml s = some ([], tk, s.drop len) := by
  cases s with
  | nil => simp at hs
  | cons c t =>
    simp only [List.head?_cons, Option.some.injEq] at hs
    subst hs
    simp only [scanHtml, decide_true, Bool.true_or, if_true, hc]

/-! ### the closing `>` of an angle-bracket tag -/

/-- quote state (true = outside quotes) after walking over `b` -/
def qwalk : Text → Bool → Bool
  | [], e => e
  | c :: t, e => qwalk t (if c = '"' then !e else e)

/-- no `>` of `b` closes the tag: each one is inside a quoted string (or at position 0) -/
def gtQuoted : Text → Nat → Bool → Bool
  | [], _, _ => true
  | c :: t, i, e => !(decide (i ≥ 1) && decide (c = '>') && e) && gtQuoted t (i + 1) (if c = '"' then !e else e)

theorem findCloseAux_walk : ∀ (b : Text) (r : Text) (i : Nat) (e : Bool), gtQuoted b i e = true → qwalk b e = true →
    1 ≤ i + b.length → findCloseAux (b ++ '>' :: r) i e = some (i + b.length) := by
  intro b
  induction b with
  | nil =>
    intro r i e _ hq hi
    simp only [qwalk] at hq
    subst hq
    simp only [List.length_nil, Nat.add_zero] at hi
    have : i ≥ 1 := hi
    simp [findCloseAux, this]
  | cons c t ih =>
    intro r i e hg hq hi
    simp only [gtQuoted, Bool.and_eq_true, Bool.not_eq_true'] at hg
    simp only [qwalk] at hq
    have h1 : (decide (i ≥ 1) && decide (c = '>') && e) = false := hg.1
    simp only [List.cons_append, findCloseAux, h1, Bool.false_eq_true, if_false]
    rw [ih r (i + 1) _ hg.2 hq (by omega)]
    simp only [List.length_cons]
    congr 1; omega

theorem gtQuoted_of_no_gt : ∀ (b : Text) (i : Nat) (e : Bool), (∀ c ∈ b, c ≠ '>') → gtQuoted b i e = true := by
  intro b
  induction b with
  | nil => intro i e _; rfl
  | cons c t ih =>
    intro i e h
    have hc := h c (List.mem_cons_self ..)
    simp only [gtQuoted, hc, decide_false, Bool.and_false, Bool.false_and, Bool.not_false, Bool.true_and]
    exact ih _ _ (fun d hd => h d (List.mem_cons_of_mem _ hd))

theorem qwalk_of_no_quote : ∀ (b : Text) (e : Bool), (∀ c ∈ b, c ≠ '"') → qwalk b e = e := by
  intro b
  induction b with
  | nil => intro e _; rfl
  | cons c t ih =>
    intro e h
    have hc := h c (List.mem_cons_self ..)
    simp only [qwalk, hc, if_false]
    exact ih _ (fun d hd => h d (List.mem_cons_of_mem _ hd))

theorem gtQuoted_append : ∀ (a b : Text) (i : Nat) (e : Bool),
    gtQuoted (a ++ b) i e = (gtQuoted a i e && gtQuoted b (i + a.length) (qwalk a e)) := by
  intro a
  induction a with
  | nil => intro b i e; simp [gtQuoted, qwalk]
  | cons c t ih =>
    intro b i e
    simp only [List.cons_append, gtQuoted, ih, qwalk, List.length_cons, Bool.and_assoc]
    congr 3; omega

theorem qwalk_append : ∀ (a b : Text) (e : Bool), qwalk (a ++ b) e = qwalk b (qwalk a e) := by
  intro a
  induction a with
  | nil => intro b e; rfl
  | cons c t ih => intro b e; simp only [List.cons_append, qwalk, ih]

/-! ### `str.find` -/

theorem findSub_some_le (pat : Text) : ∀ (s : Text) (k : Nat), findSub pat s = some k → pat.length ≤ s.length := by
  intro s
  induction s with
  | nil =>
    intro k h
    simp only [findSub] at h
    split at h
    · rename_i hp; simp [List.isEmpty_iff.mp hp]
    · cases h
  | cons c t ih =>
    intro k h
    simp only [findSub] at h
    split at h
    · rename_i hp
      exact (List.IsPrefix.length_le (List.isPrefixOf_iff_prefix.mp hp))
    · cases hf : findSub pat t with
      | none => simp [hf] at h
      | some k' =>
        have := ih k' hf
        simp only [List.length_cons]; omega

/-- an occurrence found in `a` is the first occurrence in `a ++ r` too -/
theorem findSub_append_of_some (pat : Text) : ∀ (a r : Text) (k : Nat), findSub pat a = some k →
    findSub pat (a ++ r) = some k := by
  intro a
  induction a with
  | nil =>
    intro r k h
    simp only [findSub] at h
    split at h
    · rename_i hp
      have hp' := List.isEmpty_iff.mp hp
      subst hp'
      cases r <;> simp_all [findSub]
    · cases h
  | cons c t ih =>
    intro r k h
    simp only [findSub] at h
    simp only [List.cons_append, findSub]
    split at h
    · rename_i hp
      have : pat.isPrefixOf (c :: (t ++ r)) = true := by
        rw [List.isPrefixOf_iff_prefix] at hp ⊢
        exact hp.trans (by simpa using List.prefix_append (c :: t) r)
      simp only [this, if_true]
      exact h
    · rename_i hnp
      cases hf : findSub pat t with
      | none => simp [hf] at h
      | some k' =>
        have hle := findSub_some_le pat t k' hf
        have : pat.isPrefixOf (c :: (t ++ r)) = false := by
          cases hpp : pat.isPrefixOf (c :: (t ++ r)) with
          | false => rfl
          | true =>
            exfalso
            rw [List.isPrefixOf_iff_prefix] at hpp
            apply hnp
            rw [List.isPrefixOf_iff_prefix]
            have h1 : pat <+: (c :: t) ++ r := by simpa using hpp
            exact List.prefix_of_prefix_length_le h1 (List.prefix_append (c :: t) r) (by simp only [List.length_cons]; omega)
        simp only [this, Bool.false_eq_true, if_false, ih r k' hf]
        simpa [hf] using h

/-! ### characters -/

theorem alpha_nat (c : Char) (h : isAsciiAlpha c = true) :
    (97 ≤ c.toNat ∧ c.toNat ≤ 122) ∨ (65 ≤ c.toNat ∧ c.toNat ≤ 90) := by
  simp only [isAsciiAlpha, Bool.or_eq_true, Bool.and_eq_true, decide_eq_true_eq, Char.le_def] at h
  rcases h with ⟨h1, h2⟩ | ⟨h1, h2⟩
  · left; exact ⟨by simpa using UInt32.le_iff_toNat_le.mp h1, by simpa using UInt32.le_iff_toNat_le.mp h2⟩
  · right; exact ⟨by simpa using UInt32.le_iff_toNat_le.mp h1, by simpa using UInt32.le_iff_toNat_le.mp h2⟩

theorem alpha_not_ctl (c : Char) (h : isAsciiAlpha c = true) : isCtl c = false := by
  have := alpha_nat c h
  simp only [isCtl, decide_eq_false_iff_not]; omega

theorem alpha_not_space (c : Char) (h : isAsciiAlpha c = true) : isPySpace c = false := by
  have := alpha_nat c h
  simp only [isPySpace, Bool.or_eq_false_iff, Bool.and_eq_false_iff, decide_eq_false_iff_not]
  omega

theorem alpha_ne (c x : Char) (h : isAsciiAlpha c = true) (hx : isAsciiAlpha x = false) : c ≠ x := by
  intro e; subst e; rw [h] at hx; cases hx

/-! ### `strip()` -/

theorem dropWhile_none (p : Char → Bool) (s : Text) (h : ∀ c ∈ s, p c = false) : s.dropWhile p = s := by
  cases s with
  | nil => rfl
  | cons c t => simp [List.dropWhile, h c (List.mem_cons_self ..)]

theorem pyStrip_no_space (s : Text) (h : ∀ c ∈ s, isPySpace c = false) : pyStrip s = s := by
  unfold pyStrip
  rw [dropWhile_none _ s h, dropWhile_none _ s.reverse (fun c hc => h c (List.mem_reverse.mp hc)), List.reverse_reverse]

theorem pyStrip_trailing_blank (s : Text) (h : ∀ c ∈ s, isPySpace c = false) : pyStrip (s ++ [' ']) = s := by
  unfold pyStrip
  cases s with
  | nil => decide
  | cons c t =>
    have hc := h c (List.mem_cons_self ..)
    simp only [List.cons_append, List.dropWhile, hc, List.reverse_cons, List.reverse_append, List.reverse_nil,
      List.nil_append, List.singleton_append, List.cons_append]
    have hsp : isPySpace ' ' = true := by decide
    simp only [hsp]
    have := dropWhile_none isPySpace (t.reverse ++ [c]) (fun d hd => by
      rcases List.mem_append.mp hd with hd | hd
      · exact h d (List.mem_cons_of_mem _ (List.mem_reverse.mp hd))
      · simp only [List.mem_singleton] at hd; subst hd; exact hc)
    rw [this]
    simp

/-! ### the tag name at the start of a tag body -/

theorem takeWhile_all_append (p : Char → Bool) (a b : Text) (ha : ∀ c ∈ a, p c = true)
    (hb : ∀ c, b.head? = some c → p c = false) : (a ++ b).takeWhile p = a := by
  induction a with
  | nil =>
    cases b with
    | nil => rfl
    | cons x r => simp [List.takeWhile, hb x rfl]
  | cons c t ih =>
    simp only [List.cons_append, List.takeWhile, ha c (List.mem_cons_self ..)]
    rw [ih (fun d hd => ha d (List.mem_cons_of_mem _ hd))]

/-- a name, then (for non-empty arguments) one blank and the arguments -/
def sepArgs (a : Text) : Text := if a = [] then [] else ' ' :: a

def WfName (n : Text) : Prop := n ≠ [] ∧ ∀ c ∈ n, isAsciiAlpha c = true

/-- arguments as `strip()` leaves them, not starting with a control character -/
def WfArgs (a : Text) : Prop := pyStrip a = a ∧ ∀ c, a.head? = some c → isCtl c = false

theorem sepArgs_head (a : Text) (c : Char) (h : (sepArgs a).head? = some c) : c = ' ' := by
  unfold sepArgs at h
  split at h
  · simp at h
  · simpa using h.symm

theorem nameMatchLen_printed (n a r : Text) (hn : WfName n) (ha : WfArgs a) (x : Char) (hx1 : isCtl x = false)
    (hx2 : isAsciiAlpha x = false) :
    nameMatchLen (n ++ sepArgs a ++ x :: r) = some (n.length + (sepArgs a).length - a.length) := by
  obtain ⟨hne, hal⟩ := hn
  cases n with
  | nil => exact (hne rfl).elim
  | cons c t =>
    have hc := hal c (List.mem_cons_self ..)
    have hw1 : ((c :: t) ++ sepArgs a ++ x :: r).takeWhile isCtl = [] := by
      simp [List.takeWhile, alpha_not_ctl c hc]
    have hsp : isAsciiAlpha ' ' = false := by decide
    have hal2 : ((c :: t) ++ (sepArgs a ++ x :: r)).takeWhile isAsciiAlpha = c :: t := by
      apply takeWhile_all_append _ _ _ hal
      intro d hd
      unfold sepArgs at hd
      split at hd
      · simp only [List.nil_append, List.head?_cons, Option.some.injEq] at hd; subst hd; exact hx2
      · simp only [List.cons_append, List.head?_cons, Option.some.injEq] at hd; subst hd; exact hsp
    unfold nameMatchLen
    simp only [hw1, List.length_nil, List.drop_zero, Nat.zero_add]
    rw [List.append_assoc, hal2]
    simp only [List.length_cons, Nat.add_one_ne_zero, if_false, List.drop_left']
    unfold sepArgs
    split
    · rename_i h0
      subst h0
      simp [List.takeWhile, hx1]
    · rename_i h0
      cases a with
      | nil => exact (h0 rfl).elim
      | cons y u =>
        have hy := ha.2 y rfl
        have hsp2 : isCtl ' ' = true := by decide
        simp [List.takeWhile, hsp2, hy]
        omega

/-! ### items and their spellings -/

structure Item where
  lit : Text
  isEnd : Bool
  name : Text
  args : Text

def body (i : Item) : Text := i.name ++ sepArgs i.args

/-- `<dtml-name args>` / `</dtml-name args>` -/
def printDtml (i : Item) : Text := (if i.isEnd then "</dtml-".toList else "<dtml-".toList) ++ body i ++ ['>']

def tokOf (text : Text) (i : Item) : Tok := { text := text, isEnd := i.isEnd, name := i.name, args := i.args }

/-- what the `<dtml-…>` spelling needs: a clean literal, a name of letters, stripped arguments in
which every `>` is inside a quoted string and the quotes are balanced -/
def WfDtml (i : Item) : Prop :=
  CleanLit i.lit ∧ WfName i.name ∧ WfArgs i.args ∧ gtQuoted i.args 1 true = true ∧ qwalk i.args true = true

theorem gtQuoted_pos : ∀ (b : Text) (i : Nat) (e : Bool), 1 ≤ i → gtQuoted b i e = gtQuoted b 1 e := by
  intro b
  induction b with
  | nil => intro i e _; rfl
  | cons c t ih =>
    intro i e hi
    simp only [gtQuoted]
    rw [ih (i + 1) _ (by omega), ih (1 + 1) _ (by omega)]
    simp [hi]

theorem body_close (i : Item) (h : WfDtml i) :
    gtQuoted (body i) 0 true = true ∧ qwalk (body i) true = true ∧ body i ≠ [] := by
  obtain ⟨_, ⟨hne, hal⟩, _, hg, hq⟩ := h
  have hn1 : ∀ c ∈ i.name, c ≠ '>' := fun c hc => alpha_ne c '>' (hal c hc) (by decide)
  have hn2 : ∀ c ∈ i.name, c ≠ '"' := fun c hc => alpha_ne c '"' (hal c hc) (by decide)
  have hlen : 1 ≤ i.name.length := by
    cases hname : i.name with
    | nil => exact (hne hname).elim
    | cons _ _ => simp
  refine ⟨?_, ?_, ?_⟩
  · unfold body
    rw [gtQuoted_append, gtQuoted_of_no_gt _ _ _ hn1, qwalk_of_no_quote _ _ hn2, Bool.true_and]
    unfold sepArgs
    split
    · rfl
    · simp only [gtQuoted, Nat.zero_add]
      rw [gtQuoted_pos _ _ _ (by omega)]
      simp [hg]
  · unfold body
    rw [qwalk_append, qwalk_of_no_quote _ _ hn2]
    unfold sepArgs
    split
    · rfl
    · simp [qwalk, hq]
  · unfold body
    intro h0
    have := List.append_eq_nil_iff.mp h0
    exact hne this.1

theorem body_name (i : Item) (h : WfDtml i) (x : Char) (r : Text) (hx1 : isCtl x = false) (hx2 : isAsciiAlpha x = false) :
    ∃ l, nameMatchLen (body i ++ x :: r) = some l ∧ l ≤ (body i).length ∧
      pyStrip ((body i).take l) = i.name ∧ pyStrip ((body i).drop l) = i.args := by
  obtain ⟨_, hn, ha, _, _⟩ := h
  refine ⟨_, nameMatchLen_printed i.name i.args r hn ha x hx1 hx2, ?_, ?_, ?_⟩
  · unfold body; simp only [List.length_append]; omega
  · unfold body sepArgs
    split
    · simp only [List.append_nil, List.length_nil, Nat.add_zero]
      rename_i h0
      rw [h0]
      simp only [List.length_nil, Nat.sub_zero, List.take_length]
      exact pyStrip_no_space _ (fun c hc => alpha_not_space c (hn.2 c hc))
    · have : i.name.length + (' ' :: i.args).length - i.args.length = i.name.length + 1 := by
        simp only [List.length_cons]; omega
      rw [this]
      have : (i.name ++ ' ' :: i.args).take (i.name.length + 1) = i.name ++ [' '] := by
        rw [List.take_append]
        simp [List.take_of_length_le]
      rw [this]
      exact pyStrip_trailing_blank _ (fun c hc => alpha_not_space c (hn.2 c hc))
  · unfold body sepArgs
    split
    · rename_i h0
      rw [h0]
      simp only [List.append_nil, List.length_nil, Nat.add_zero, Nat.sub_zero, List.drop_length]
      decide
    · have : i.name.length + (' ' :: i.args).length - i.args.length = i.name.length + 1 := by
        simp only [List.length_cons]; omega
      rw [this]
      have : (i.name ++ ' ' :: i.args).drop (i.name.length + 1) = i.args := by
        rw [List.drop_append]
        simp
      rw [this]
      exact ha.1

theorem take_lit (p b r : Text) (x : Char) (n : Nat) (hn : n = p.length + b.length + 1) :
    (p ++ (b ++ x :: r)).take n = p ++ (b ++ [x]) := by
  subst hn
  have : p ++ (b ++ x :: r) = (p ++ (b ++ [x])) ++ r := by simp
  rw [this, List.take_append_of_le_length (by simp; omega), List.take_of_length_le (by simp; omega)]

theorem take_lits (p b suf r : Text) (n : Nat) (hn : n = p.length + b.length + suf.length) :
    (p ++ (b ++ (suf ++ r))).take n = p ++ (b ++ suf) := by
  subst hn
  have : p ++ (b ++ (suf ++ r)) = (p ++ (b ++ suf)) ++ r := by simp
  rw [this, List.take_append_of_le_length (by simp; omega), List.take_of_length_le (by simp; omega)]

theorem cand_dtml (i : Item) (rest : Text) (h : WfDtml i) :
    candidate (printDtml i ++ rest) = .tok (printDtml i).length (tokOf (printDtml i) i) := by
  obtain ⟨hg, hq, hne⟩ := body_close i h
  obtain ⟨l, hl, hle, hname, hargs⟩ := body_name i h '>' rest (by decide) (by decide)
  have hc := findCloseAux_walk (body i) rest 0 true hg hq (by
    cases hb : body i with
    | nil => exact (hne hb).elim
    | cons _ _ => simp)
  unfold printDtml tokOf
  cases hend : i.isEnd with
  | false =>
    simp only [Bool.false_eq_true, if_false]
    unfold candidate
    simp [List.isPrefixOf, findClose, hc, hl, List.take_append_of_le_length hle, hname, hargs,
      List.take_append_of_le_length (Nat.le_refl _)]
    exact ⟨by omega, take_lit ['d', 't', 'm', 'l', '-'] (body i) rest '>' _ (by simp; omega)⟩
  | true =>
    simp only [if_true]
    unfold candidate
    simp [List.isPrefixOf, findClose, hc, hl, List.take_append_of_le_length hle, hname, hargs]
    exact ⟨by omega, take_lit ['/', 'd', 't', 'm', 'l', '-'] (body i) rest '>' _ (by simp; omega)⟩

/-- `<!--#name args-->` / `<!--#/name args-->` -/
def printSsi (i : Item) : Text :=
  "<!--#".toList ++ (if i.isEnd then ['/'] else []) ++ body i ++ "-->".toList

/-- what the `<!--#…-->` spelling needs on top: no `>` in the arguments at all (the first `-->`
ends the tag, quoted or not), and a start tag whose name does not begin with `end` -/
def WfSsi (i : Item) : Prop :=
  WfDtml i ∧ (∀ c ∈ i.args, c ≠ '>') ∧ (i.isEnd = false → endMatchLen (body i ++ "-->".toList) = none)

theorem findSub_arrow : ∀ (b : Text), (∀ c ∈ b, c ≠ '>') → findSub "-->".toList (b ++ "-->".toList) = some b.length := by
  intro b
  induction b with
  | nil => intro _; simp [findSub, List.isPrefixOf]
  | cons c t ih =>
    intro hb
    have ht := ih (fun d hd => hb d (List.mem_cons_of_mem _ hd))
    have hnp : "-->".toList.isPrefixOf (c :: t ++ "-->".toList) = false := by
      match t, hb with
      | [], hb => simp [List.isPrefixOf]
      | [d], hb => simp [List.isPrefixOf]
      | d :: e :: r, hb =>
        have he := hb e (by simp)
        simp [List.isPrefixOf]
        intro _ _ h
        exact he h.symm
    simp only [List.cons_append] at hnp ⊢
    simp only [findSub, hnp, Bool.false_eq_true, if_false, ht, Option.map_some, List.length_cons]

theorem endMatchLen_append (a r : Text) (h3 : 3 ≤ a.length) (hh : ∀ c, a.head? = some c → isCtl c = false) :
    endMatchLen (a ++ r) = endMatchLen a := by
  match a, h3, hh with
  | x :: y :: z :: t, _, hh =>
    have hx := hh x rfl
    unfold endMatchLen
    simp only [List.cons_append, List.takeWhile, hx, List.length_nil, List.drop_zero]
    by_cases hs : x = '/'
    · subst hs; rfl
    · simp only [hs]

theorem body_no_gt (i : Item) (h : WfSsi i) : ∀ c ∈ body i, c ≠ '>' := by
  intro c hc
  unfold body at hc
  rcases List.mem_append.mp hc with hc | hc
  · exact alpha_ne c '>' (h.1.2.1.2 c hc) (by decide)
  · unfold sepArgs at hc
    split at hc
    · cases hc
    · rcases List.mem_cons.mp hc with rfl | hc
      · decide
      · exact h.2.1 c hc

theorem body_length_pos (i : Item) (h : WfDtml i) : 1 ≤ (body i).length := by
  have := (body_close i h).2.2
  cases hb : body i with
  | nil => exact (this hb).elim
  | cons _ _ => simp

theorem body_head (i : Item) (h : WfDtml i) : ∀ c, (body i).head? = some c → isCtl c = false := by
  intro c hc
  obtain ⟨_, ⟨hne, hal⟩, _⟩ := h
  unfold body at hc
  cases hn : i.name with
  | nil => exact (hne hn).elim
  | cons x t =>
    rw [hn] at hc hal
    simp only [List.cons_append, List.head?_cons, Option.some.injEq] at hc
    subst hc
    exact alpha_not_ctl _ (hal _ (List.mem_cons_self ..))

theorem cand_ssi (i : Item) (rest : Text) (h : WfSsi i) :
    candidate (printSsi i ++ rest) = .tok (printSsi i).length (tokOf (printSsi i) i) := by
  obtain ⟨l, hl, hle, hname, hargs⟩ := body_name i h.1 '-' ('-' :: '>' :: rest) (by decide) (by decide)
  have hpos := body_length_pos i h.1
  unfold printSsi tokOf
  cases hend : i.isEnd with
  | false =>
    have hfs : findSub ['-', '-', '>'] (body i ++ '-' :: '-' :: '>' :: rest) = some (body i).length := by
      have h1 := findSub_arrow (body i) (body_no_gt i h)
      have h2 := findSub_append_of_some _ _ rest _ h1
      simpa using h2
    have hem : endMatchLen (body i ++ '-' :: '-' :: '>' :: rest) = none := by
      have h1 := h.2.2 hend
      have h2 := endMatchLen_append (body i ++ "-->".toList) rest (by simp) (by
        intro c hc
        apply body_head i h.1 c
        cases hb : body i with
        | nil => rw [hb] at hpos; simp at hpos
        | cons x t => rw [hb] at hc; simpa using hc)
      rw [h1] at h2
      simpa using h2
    simp only [Bool.false_eq_true, if_false, List.append_nil]
    unfold candidate
    simp [List.isPrefixOf, hfs, hem, hl, List.take_append_of_le_length hle, hname, hargs,
      List.take_append_of_le_length (Nat.le_refl _)]
    exact ⟨by omega, take_lits ['-', '#'] (body i) ['-', '-', '>'] rest _ (by simp; omega)⟩
  | true =>
    have hfs : findSub ['-', '-', '>'] ('/' :: (body i ++ '-' :: '-' :: '>' :: rest)) = some ((body i).length + 1) := by
      have h1 := findSub_arrow ('/' :: body i) (by
        intro c hc
        rcases List.mem_cons.mp hc with rfl | hc
        · decide
        · exact body_no_gt i h c hc)
      have h2 := findSub_append_of_some _ _ rest _ h1
      simpa using h2
    have hem : endMatchLen ('/' :: (body i ++ '-' :: '-' :: '>' :: rest)) = some 1 := by
      unfold endMatchLen
      have : isCtl '/' = false := by decide
      simp [List.takeWhile, this]
    have hsl : pyStrip ['/'] = ['/'] := by decide
    simp only [if_true]
    unfold candidate
    simp [List.isPrefixOf, hfs, hem, hl, List.take_append_of_le_length hle, hname, hargs, hsl,
      List.take_append_of_le_length (Nat.le_refl _)]
    refine ⟨by omega, take_lits ['-', '#', '/'] (body i) ['-', '-', '>'] rest _ (by simp; omega), ?_⟩
    have : List.drop (1 + l) ('/' :: body i) = List.drop l (body i) := by
      rw [Nat.add_comm]; rfl
    rw [this, hargs]

/-! ### whole documents -/

/-- the source text of a document: literal, tag, literal, tag, …, trailing literal -/
def printDoc (pr : Item → Text) : List Item → Text → Text
  | [], tail => tail
  | i :: r, tail => i.lit ++ (pr i ++ printDoc pr r tail)

theorem printDtml_head (i : Item) (r : Text) : (printDtml i ++ r).head? = some '<' := by
  unfold printDtml; split <;> rfl

theorem printSsi_head (i : Item) (r : Text) : (printSsi i ++ r).head? = some '<' := by
  unfold printSsi; rfl

theorem scan_item (pr : Item → Text) (i : Item) (rest : Text) (hl : CleanLit i.lit)
    (hh : (pr i ++ rest).head? = some '<')
    (hc : candidate (pr i ++ rest) = .tok (pr i).length (tokOf (pr i) i)) :
    scanHtml (i.lit ++ (pr i ++ rest)) = some (i.lit, tokOf (pr i) i, rest) := by
  rw [scanHtml_lit _ _ hl, scanHtml_tag _ _ _ hh hc]
  simp

theorem printDoc_length (pr : Item → Text) (hp : ∀ i, 1 ≤ (pr i).length) :
    ∀ (items : List Item) (tail : Text), items.length ≤ (printDoc pr items tail).length := by
  intro items
  induction items with
  | nil => intro tail; simp
  | cons i r ih =>
    intro tail
    have := ih tail
    have := hp i
    simp only [printDoc, List.length_cons, List.length_append]
    omega

/-- **re-scanning a printed document gives back its items**, for any spelling `pr` whose tags the
scanner recognises in front of any continuation -/
theorem tokensAux_printed (pr : Item → Text) (Wf : Item → Prop)
    (hscan : ∀ i rest, Wf i → scanHtml (i.lit ++ (pr i ++ rest)) = some (i.lit, tokOf (pr i) i, rest)) :
    ∀ (items : List Item) (tail : Text) (fuel : Nat), (∀ i ∈ items, Wf i) → CleanLit tail → items.length < fuel →
    tokensAux .html fuel (printDoc pr items tail) = (items.map (fun i => (i.lit, tokOf (pr i) i)), tail) := by
  intro items
  induction items with
  | nil =>
    intro tail fuel _ ht hf
    cases fuel with
    | zero => simp at hf
    | succ n => simp only [printDoc, tokensAux, scan, scanHtml_clean tail ht, List.map_nil]
  | cons i r ih =>
    intro tail fuel hw ht hf
    cases fuel with
    | zero => simp at hf
    | succ n =>
      have h1 := hscan i (printDoc pr r tail) (hw i (List.mem_cons_self ..))
      simp only [printDoc, tokensAux, scan, h1]
      rw [ih tail n (fun j hj => hw j (List.mem_cons_of_mem _ hj)) ht (by simp only [List.length_cons] at hf; omega)]
      simp

theorem tokens_printed (pr : Item → Text) (Wf : Item → Prop) (hp : ∀ i, 1 ≤ (pr i).length)
    (hscan : ∀ i rest, Wf i → scanHtml (i.lit ++ (pr i ++ rest)) = some (i.lit, tokOf (pr i) i, rest))
    (items : List Item) (tail : Text) (hw : ∀ i ∈ items, Wf i) (ht : CleanLit tail) :
    tokens .html (printDoc pr items tail) = (items.map (fun i => (i.lit, tokOf (pr i) i)), tail) := by
  unfold tokens
  apply tokensAux_printed pr Wf hscan items tail _ hw ht
  have := printDoc_length pr hp items tail
  omega

theorem printDtml_length (i : Item) : 1 ≤ (printDtml i).length := by
  unfold printDtml
  simp only [List.length_append, List.length_cons, List.length_nil]
  omega

theorem printSsi_length (i : Item) : 1 ≤ (printSsi i).length := by
  unfold printSsi
  simp only [List.length_append]
  have : ("-->".toList).length = 3 := rfl
  omega

/-- the `<dtml-…>` document is scanned into its items -/
theorem tokens_dtml (items : List Item) (tail : Text) (hw : ∀ i ∈ items, WfDtml i) (ht : CleanLit tail) :
    tokens .html (printDoc printDtml items tail) = (items.map (fun i => (i.lit, tokOf (printDtml i) i)), tail) :=
  tokens_printed printDtml WfDtml printDtml_length
    (fun i rest h => scan_item printDtml i rest h.1 (printDtml_head i rest) (cand_dtml i rest h)) items tail hw ht

/-- the `<!--#…-->` document is scanned into the same items -/
theorem tokens_ssi (items : List Item) (tail : Text) (hw : ∀ i ∈ items, WfSsi i) (ht : CleanLit tail) :
    tokens .html (printDoc printSsi items tail) = (items.map (fun i => (i.lit, tokOf (printSsi i) i)), tail) :=
  tokens_printed printSsi WfSsi printSsi_length
    (fun i rest h => scan_item printSsi i rest h.1.1 (printSsi_head i rest) (cand_ssi i rest h)) items tail hw ht

end DTML.Lemmas.Print
