/-
Model of the dtml-tree state codec (TreeDisplay.TreeTag): encode_str /
encode_seq after compression, and decode_seq before decompression.

  encode:  split into 57-byte chunks, base64 each (binascii.b2a_base64 minus
           the newline), join, cut at the first '=', translate '+' to '-'
  decode:  translate '-' to '+', split into 76-character chunks, base64-decode
           each (the last one padded with '=' to a multiple of 4), join

Bytes are `Nat`s below 256 (`Valid`).  zlib and json are external.
-/
import DTML.Gen
namespace DTML.TreeCodec

abbrev Bytes := List Nat

def Valid (bs : Bytes) : Prop := ∀ b ∈ bs, b < 256

def alphabet : List Char :=
  "ABCDEFGHIJKLMNOPQRSTUVWXYZabcdefghijklmnopqrstuvwxyz0123456789+/".toList

def encChar (i : Nat) : Char := alphabet.getD i 'A'

def decChar (c : Char) : Option Nat :=
  match alphabet.findIdx? (· == c) with
  | some i => some i
  | none => none

/-- binascii.b2a_base64(bs) without the trailing newline -/
def b2a : Bytes → List Char
  | a :: b :: c :: t =>
    let n := a * 65536 + b * 256 + c
    encChar (n / 262144) :: encChar (n / 4096 % 64) :: encChar (n / 64 % 64) :: encChar (n % 64) :: b2a t
  | [a, b] =>
    let n := a * 65536 + b * 256
    [encChar (n / 262144), encChar (n / 4096 % 64), encChar (n / 64 % 64), '=']
  | [a] =>
    let n := a * 65536
    [encChar (n / 262144), encChar (n / 4096 % 64), '=', '=']
  | [] => []

/-- binascii.a2b_base64 on well-formed (padded) input; `none` otherwise -/
def a2b : List Char → Option Bytes
  | [] => some []
  | [c0, c1, '=', '='] =>
    match decChar c0, decChar c1 with
    | some i0, some i1 => some [(i0 * 262144 + i1 * 4096) / 65536]
    | _, _ => none
  | [c0, c1, c2, '='] =>
    match decChar c0, decChar c1, decChar c2 with
    | some i0, some i1, some i2 =>
      let n := i0 * 262144 + i1 * 4096 + i2 * 64
      some [n / 65536, n / 256 % 256]
    | _, _, _ => none
  | c0 :: c1 :: c2 :: c3 :: t =>
    match decChar c0, decChar c1, decChar c2, decChar c3, a2b t with
    | some i0, some i1, some i2, some i3, some r =>
      let n := i0 * 262144 + i1 * 4096 + i2 * 64 + i3
      some (n / 65536 :: n / 256 % 256 :: n % 256 :: r)
    | _, _, _, _, _ => none
  | _ => none

/-- `[state[i:i+n] for i in range(0, len, n)]` (with fuel = length) -/
def chunksAux {α : Type} (n : Nat) : Nat → List α → List (List α)
  | 0, _ => []
  | fuel + 1, l => if l.isEmpty then [] else l.take n :: chunksAux n fuel (l.drop n)

def chunks {α : Type} (n : Nat) (l : List α) : List (List α) := chunksAux n l.length l

def tplus (c : Char) : Char := if c = '+' then '-' else c
def tminus (c : Char) : Char := if c = '-' then '+' else c

/-- TreeTag.encode_str (= encode_seq after compress(json.dumps(state))) -/
def encodeStr (bs : Bytes) : List Char :=
  let s := if bs.length > 57 then (chunks 57 bs).flatMap b2a else b2a bs
  (s.takeWhile (· != '=')).map tplus

/-- `k = l % 4; if k: state += '=' * (4 - k)` -/
def pad (s : List Char) : List Char :=
  if s.length % 4 = 0 then s else s ++ List.replicate (4 - s.length % 4) '='

def optConcat : List (Option Bytes) → Option Bytes
  | [] => some []
  | none :: _ => none
  | some a :: t => (optConcat t).map (a ++ ·)

/-- TreeTag.decode_seq up to (not including) decompress / json.loads -/
def decodeStr (cs : List Char) : Option Bytes :=
  let s := cs.map tminus
  if s.length > 76 then
    let full := s.length / 76
    let head := (chunks 76 (s.take (full * 76))).map a2b
    let rest := s.drop (full * 76)
    if rest.isEmpty then optConcat head else optConcat (head ++ [a2b (pad rest)])
  else a2b (pad s)

end DTML.TreeCodec
