/-
Model of `sequence_variables.statistics` (DT_InSV): one pass collecting count,
sum, sum of squares, min and max of the numeric values (None ignored), derived
mean / variances, and the median rule.  Numbers are rationals: Python ints are
exact, a float enters as the rational it denotes (rounding is runtime).
-/
namespace DTML.Stats

structure Acc where
  count : Nat := 0
  sum : Rat := 0
  sumsq : Rat := 0
  min : Option Rat := none
  max : Option Rat := none
  deriving Repr

/-- one loop iteration for a numeric item -/
def step (a : Acc) (x : Rat) : Acc :=
  { count := a.count + 1
    sum := a.sum + x
    sumsq := a.sumsq + x * x
    min := match a.min with
      | none => some x
      | some m => some (if x < m then x else m)
    max := match a.max with
      | none => some x
      | some m => some (if x > m then x else m) }

def pass (xs : List Rat) : Acc := xs.foldl step {}

/-- None values are ignored -/
def numeric (items : List (Option Rat)) : List Rat := items.filterMap id

def mean (xs : List Rat) : Rat := (pass xs).sum / (xs.length : Rat)

/-- `sumsq / n - mean * mean` (variance-n) -/
def varianceN (xs : List Rat) : Rat := (pass xs).sumsq / (xs.length : Rat) - mean xs * mean xs

/-- `variance-n * n / (n - 1)` (variance; only defined for n > 1) -/
def variance (xs : List Rat) : Rat := varianceN xs * (xs.length : Rat) / ((xs.length : Rat) - 1)

def sorted (xs : List Rat) : List Rat := xs.mergeSort (fun a b => decide (a ≤ b))

/-- median: the single value; the middle value of an odd count; for an even
count of ints the floor of the mean of the two middle values, of other numbers
their mean. -/
def median (isInt : Bool) (xs : List Rat) : Option Rat :=
  let s := sorted xs
  let n := xs.length
  if n = 0 then none
  else if n = 1 then (pass xs).min
  else if n % 2 ≠ 0 then s[n / 2]?
  else
    match s[n / 2]?, s[n / 2 - 1]? with
    | some hi, some lo => some (if isInt then ((hi + lo) / 2).floor else (hi + lo) / 2)
    | _, _ => none

end DTML.Stats
