/-
Model of the dtml-var value pipeline:
  DT_Var.Var.__init__ (which form is compiled), Var.render (missing, null, fmt=,
  C-style format, modifiers in `Gen.modifiers` order, size/etc, final quoting of
  tainted values) and the two simple forms of _DocumentTemplate.render_blocks_.

Values carry the `TaintedString` mark as a Bool; the mark follows exactly the
rules of AccessControl.tainted.TaintedString (kept by lower/upper/capitalize/+,
re-evaluated as "contains '<'" by slicing and replace, dropped by str()).

External functions (Unicode case mapping, urllib quote/unquote) are parameters
(`Ext`); theorems state the laws they need as hypotheses.
-/
import DTML.Gen
import DTML.Quote
namespace DTML.VarPipe
open DTML.Quote

structure Ext where
  upper : Text → Text
  lower : Text → Text
  capitalize : Text → Text
  urlQuote : Text → Text
  urlQuotePlus : Text → Text
  urlUnquote : Text → Text
  urlUnquotePlus : Text → Text

/-- the values the pipeline is modelled on -/
inductive Val where
  | none
  | int (i : Int)
  | str (s : Text) (tainted : Bool)
  /-- any other object: its `str()` form, its truth value, and its no-argument
  methods returning plain strings -/
  | obj (s : Text) (truthy : Bool) (methods : List (String × Text))
  deriving Repr, DecidableEq

inductive Err where
  | typeError | attributeError | valueError | keyError
  deriving Repr, DecidableEq

abbrev R := Except Err

instance {ε α : Type} [DecidableEq ε] [DecidableEq α] : DecidableEq (Except ε α)
  | .ok a, .ok b => if h : a = b then isTrue (h ▸ rfl) else isFalse (fun h' => by cases h'; exact h rfl)
  | .error a, .error b => if h : a = b then isTrue (h ▸ rfl) else isFalse (fun h' => by cases h'; exact h rfl)
  | .ok _, .error _ => isFalse (fun h => by cases h)
  | .error _, .ok _ => isFalse (fun h => by cases h)

def hasLt (s : Text) : Bool := s.contains '<'

/-- `TaintedString(s) if should_be_tainted(s) else s` -/
def retaint (s : Text) (was : Bool) : Val := .str s (was && hasLt s)

/-- Python `str(i)` -/
def intRepr (i : Int) : Text :=
  if i < 0 then '-' :: Nat.toDigits 10 i.natAbs else Nat.toDigits 10 i.toNat

/-- `ustr(v)` / `str(v)` -/
def ustr : Val → Text
  | .none => "None".toList
  | .int i => intRepr i
  | .str s _ => s
  | .obj s _ _ => s

def truthy : Val → Bool
  | .none => false
  | .int i => i != 0
  | .str s _ => !s.isEmpty
  | .obj _ t _ => t

/-- `not val and val != 0` -/
def isNull (v : Val) : Bool :=
  match v with
  | .int _ => false
  | _ => !truthy v

/-! ### the individual string functions -/

def replaceChar (s : Text) (c : Char) (r : Text) : Text := s.flatMap fun d => if d = c then r else [d]
def removeChar (s : Text) (c : Char) : Text := s.filter (· != c)

/-- DT_Var.sql_quote on text: drop NUL, Ctrl-Z, CR; double every single quote -/
def sqlQuote (s : Text) : Text :=
  replaceChar (removeChar (removeChar (removeChar s '\x00') '\x1a') '\r') '\'' ['\'', '\'']

def spacify (s : Text) : Text := replaceChar s '_' [' ']

/-- DT_Var.newline_to_br on (already quoted if tainted) text -/
def newlineToBr (s : Text) : Text := replaceChar (removeChar s '\r') '\n' "<br />\n".toList

def isDigit (c : Char) : Bool := '0' ≤ c && c ≤ '9'

/-- does `([0-9])([0-9][0-9][0-9]([,.]|$))` match at the start of `s`?  (`$`
matches at the end and before a final newline.) -/
def thouAt : Text → Bool
  | a :: b :: c :: d :: rest =>
    isDigit a && isDigit b && isDigit c && isDigit d &&
      (match rest with
       | [] => true
       | ['\n'] => true
       | e :: _ => e = ',' || e = '.')
  | _ => false

/-- leftmost match position of the regex search -/
def thouFind : Text → Nat → Option Nat
  | [], _ => none
  | s@(_ :: t), i => if thouAt s then some i else thouFind t (i + 1)

/-- the `while mo: v = v[:l+1] + ',' + v[l+1:]` loop, with fuel -/
def thouLoop : Nat → Text → Text
  | 0, s => s
  | fuel + 1, s =>
    match thouFind s 0 with
    | none => s
    | some l => thouLoop fuel (s.take (l + 1) ++ [','] ++ s.drop (l + 1))

def splitOnDot (s : Text) : Text × Text :=
  (s.takeWhile (· != '.'), s.dropWhile (· != '.'))

/-- DT_Var.thousands_commas on `str(v)` -/
def thousandsCommas (s : Text) : Text :=
  let (ip, rest) := splitOnDot s
  thouLoop ip.length ip ++ rest

/-- Python `s[:k]` -/
def sliceTo (s : Text) (k : Int) : Text :=
  if k ≥ 0 then s.take k.toNat else s.take (s.length - (-k).toNat)

/-- scan left to right remembering the index of the last blank seen -/
def rfindSpaceAux : Text → Nat → Int → Int
  | [], _, last => last
  | c :: t, i, last => rfindSpaceAux t (i + 1) (if c = ' ' then (i : Int) else last)

/-- Python `s.rfind(' ')` -/
def rfindSpace (s : Text) : Int := rfindSpaceAux s 0 (-1)

def digitsToNat (ds : Text) : Nat := ds.foldl (fun n c => 10 * n + (c.toNat - 48)) 0

/-- parse what Python's `int()` accepts from the tag attribute (optional sign,
ASCII digits; surrounding blanks are stripped by the attribute grammar already) -/
def parseInt (s : Text) : Option Int :=
  match s with
  | '-' :: ds => if !ds.isEmpty && ds.all isDigit then some (-(digitsToNat ds : Int)) else none
  | '+' :: ds => if !ds.isEmpty && ds.all isDigit then some (digitsToNat ds : Int) else none
  | ds => if !ds.isEmpty && ds.all isDigit then some (digitsToNat ds : Int) else none

/-! ### the tag -/

structure Spec where
  /-- attribute names written in the tag with a true value (any order, may repeat) -/
  written : List String
  missing : Option Text := none
  null : Option Text := none
  fmt : Option Text := none
  size : Option Text := none
  etc : Option Text := none
  /-- C-style format (always "s" in the HTML syntaxes) -/
  cfmt : Text := ['s']
  deriving Repr

/-- the modifiers a tag applies: `Gen.modifiers` (source order, regenerated on
every run) filtered by the set of written attribute names -/
def applied (sp : Spec) : List String := Gen.modifiers.filter (fun m => sp.written.contains m)

/-- one modifier applied to the current value (always a string here) -/
def applyMod (x : Ext) (m : String) (s : Text) (t : Bool) : Text × Bool :=
  if m = "html_quote" then (if t then (s, t) else (escape s, false))
  else if m = "url_quote" then (x.urlQuote s, false)
  else if m = "url_quote_plus" then (x.urlQuotePlus s, false)
  else if m = "url_unquote" then let r := x.urlUnquote s; (r, t && hasLt r)
  else if m = "url_unquote_plus" then let r := x.urlUnquotePlus s; (r, t && hasLt r)
  else if m = "newline_to_br" then (newlineToBr (if t then escape s else s), false)
  else if m = "lower" then (x.lower s, t)
  else if m = "upper" then (x.upper s, t)
  else if m = "capitalize" then (x.capitalize s, t)
  else if m = "spacify" then (if s.contains '_' then (spacify s, t && hasLt (spacify s)) else (s, t))
  else if m = "thousands_commas" then let r := thousandsCommas s; (r, t && hasLt r)
  else if m = "sql_quote" then (sqlQuote s, t && hasLt (sqlQuote s))
  else (s, t)

def applyMods (x : Ext) (ms : List String) (s : Text) (t : Bool) : Text × Bool :=
  ms.foldl (fun (p : Text × Bool) m => applyMod x m p.1 p.2) (s, t)

/-- size/etc truncation -/
def truncate (size : Int) (etc : Text) (s : Text) (t : Bool) : Text × Bool :=
  if (s.length : Int) > size then
    let v := sliceTo s size
    let tv := t && hasLt v
    let l := rfindSpace v
    let (v, tv) := if 2 * l > size then (sliceTo v (l + 1), tv && hasLt (sliceTo v (l + 1))) else (v, tv)
    (v ++ etc, tv)
  else (s, t)

/-- "$%d" % v and "$%.2f" % v for the modelled values (ints only; others raise
TypeError inside the format function, which returns '') -/
def wholeDollars : Val → Text
  | .int i => '$' :: intRepr i
  | _ => []
def dollarsAndCents : Val → Text
  | .int i => '$' :: intRepr i ++ ".00".toList
  | _ => []

def strMethods : List String := ["upper", "lower", "capitalize"]

/-- `hasattr(val, fmt)` for the modelled values and the generated fmt names -/
def hasMethod (v : Val) (fmt : String) : Bool :=
  match v with
  | .str _ _ => strMethods.contains fmt
  | .obj _ _ ms => (ms.lookup fmt).isSome
  | _ => false

/-- `fmt % val` for the directives the generator emits: literal text, `%%`, and
exactly one `%s` (or `%d`, ints only).  `used` = the argument was consumed; a
format that consumes nothing raises TypeError ("not all arguments converted").
`none` = outside the model. -/
def pyFormatAux : Text → Val → Bool → Option (R Text)
  | [], v, used =>
      -- nothing consumed the argument: TypeError, except for a TaintedString, whose
      -- __getitem__ makes CPython treat it like a mapping (no "not all arguments converted")
      if used then some (.ok []) else
      match v with
      | .str _ true => some (.ok [])
      | _ => some (.error .typeError)
  | '%' :: '%' :: t, v, used => (pyFormatAux t v used).map (fun r => r.map ('%' :: ·))
  | '%' :: 's' :: t, v, used =>
      if used then some (.error .typeError)   -- not enough arguments
      else (pyFormatAux t v true).map (fun r => r.map (ustr v ++ ·))
  | '%' :: 'd' :: t, v, used =>
      if used then some (.error .typeError) else
      match v with
      | .int i => (pyFormatAux t v true).map (fun r => r.map (intRepr i ++ ·))
      | .str _ true => none      -- TaintedString defines __int__: int(text), outside the model
      | _ => some (.error .typeError)
  | '%' :: _, _, _ => none
  | c :: t, v, used => (pyFormatAux t v used).map (fun r => r.map (c :: ·))

def pyFormat (fmt : Text) (v : Val) : Option (R Text) := pyFormatAux fmt v false

/-- the `fmt=` stage -/
def fmtStage (x : Ext) (fmt : Text) (v : Val) : Option (R Val) :=
  let f := String.ofList fmt
  let tainted := match v with | .str _ t => t | _ => false
  if hasMethod v f then
    match v with
    | .str s t =>
      some (.ok (.str (if f = "upper" then x.upper s else if f = "lower" then x.lower s else x.capitalize s) t))
    | .obj _ _ ms => some (.ok (.str ((ms.lookup f).getD []) false))
    | _ => none
  else if Gen.specialFormats.contains f then
    if f = "html-quote" then
      (if tainted then some (.ok v) else some (.ok (.str (escape (ustr v)) false)))
    else if f = "sql-quote" then
      match v with
      | .str s t => some (.ok (retaint (sqlQuote s) t))
      | _ => some (.error .attributeError)
    else if f = "url-quote" then some (.ok (.str (x.urlQuote (ustr v)) false))
    else if f = "url-quote-plus" then some (.ok (.str (x.urlQuotePlus (ustr v)) false))
    else if f = "url-unquote" then some (.ok (retaint (x.urlUnquote (ustr v)) tainted))
    else if f = "url-unquote-plus" then some (.ok (retaint (x.urlUnquotePlus (ustr v)) tainted))
    else if f = "multi-line" then
      some (.ok (.str (newlineToBr (if tainted then escape (ustr v) else ustr v)) false))
    else if f = "comma-numeric" then some (.ok (retaint (thousandsCommas (ustr v)) tainted))
    else if f = "whole-dollars" then some (.ok (.str (wholeDollars v) false))
    else if f = "dollars-and-cents" then some (.ok (.str (dollarsAndCents v) false))
    else if f = "dollars-with-commas" then some (.ok (.str (thousandsCommas (wholeDollars v)) false))
    else if f = "dollars-and-cents-with-commas" then
      some (.ok (.str (thousandsCommas (dollarsAndCents v)) false))
    else if f = "collection-length" then
      match v with
      | .str s _ => some (.ok (.str (intRepr s.length) false))
      | _ => some (.error .typeError)
    else none       -- structured-text / restructured-text: external
  else if fmt = [] then some (.ok (.str [] false))
  else
    match pyFormat fmt v with
    | none => none
    | some (.error e) => some (.error e)
    | some (.ok s) => some (.ok (.str s tainted))   -- TaintedString(fmt % val) keeps the mark

/-- the C-style format stage (`self.fmt`): result is always a string -/
def cfmtStage (cfmt : Text) (v : Val) : Option (R (Text × Bool)) :=
  if cfmt = ['s'] then
    match v with
    | .str s t => some (.ok (s, t))
    | _ => some (.ok (ustr v, false))
  else if cfmt = ['d'] then
    match v with
    | .int i => some (.ok (intRepr i, false))
    | .str _ true => none     -- TaintedString.__int__: int(text), outside the model
    | _ => some (.error .typeError)
  else none

/-- does the tag compile to one of the two simple forms? (0 = full, 1 = plain, 2 = html_quote) -/
def simpleKind (sp : Spec) : Nat :=
  let nargs := 1 + sp.written.eraseDups.length + (if sp.missing.isSome then 1 else 0) +
    (if sp.null.isSome then 1 else 0) + (if sp.fmt.isSome then 1 else 0) +
    (if sp.size.isSome then 1 else 0) + (if sp.etc.isSome then 1 else 0)
  if sp.cfmt = ['s'] ∧ nargs = 1 then 1
  else if sp.cfmt = ['s'] ∧ nargs = 2 ∧ sp.written.contains "html_quote" then 2
  else 0

/-- size/etc truncation and the final quoting of a still-tainted value -/
def finishStage (sp : Spec) (s : Text) (t : Bool) : R Text :=
  match sp.size with
  | none => .ok (if t then escape s else s)
  | some sz =>
    match parseInt sz with
    | none => .error .valueError
    | some n =>
      let p := truncate n (sp.etc.getD "...".toList) s t
      .ok (if p.2 then escape p.1 else p.1)

/-- modifiers (in `Gen.modifiers` order), then `finishStage` -/
def afterCfmt (x : Ext) (sp : Spec) (s : Text) (t : Bool) : R Text :=
  let p := applyMods x (applied sp) s t
  finishStage sp p.1 p.2

/-- C-style format, then the rest -/
def afterFmt (x : Ext) (sp : Spec) (v1 : Val) : Option (R Text) :=
  match cfmtStage sp.cfmt v1 with
  | none => none
  | some (.error e) => some (.error e)
  | some (.ok (s, t)) => some (afterCfmt x sp s t)

/-- the `fmt=` stage when the attribute is present -/
def fmtOpt (x : Ext) (sp : Spec) (v : Val) : Option (R Val) :=
  match sp.fmt with
  | some f => fmtStage x f v
  | none => some (.ok v)

/-- `Var.render` from the point where the value has been looked up -/
def renderFull (x : Ext) (sp : Spec) (v : Val) : Option (R Text) :=
  if sp.null.isSome && isNull v then some (.ok (sp.null.getD []))
  else
    match fmtOpt x sp v with
    | none => none
    | some (.error e) => some (.error e)
    | some (.ok v1) => afterFmt x sp v1

/-- the two simple forms of render_blocks_ -/
def renderSimple (kind : Nat) (v : Val) : Text :=
  match v with
  | .str s true => escape s                 -- __untaint__ : quoted once, never twice
  | _ => if kind = 2 then Quote.renderSimpleH (ustr v) else ustr v

/-- what a dtml-var / entity reference inserts for a looked-up value `some v`,
or for an undefined name `none` -/
def render (x : Ext) (sp : Spec) (v : Option Val) : Option (R Text) :=
  match v with
  | none =>
    (match sp.missing with
     | some m => some (.ok m)
     | none => some (.error .keyError))
  | some v =>
    if simpleKind sp ≠ 0 then some (.ok (renderSimple (simpleKind sp) v))
    else renderFull x sp v

end DTML.VarPipe
