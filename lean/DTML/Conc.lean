/-
Interleaving model of several threads calling ONE shared template object (String.__call__,
String.cook): shared state = the volatile compiled data (`_v_cooked` flag, `_v_blocks`), the
cook lock, and the lazily filled caches on the compiled program (compiled expressions, lazily
imported tag classes: every writer writes the same value).  Each thread has its own inputs and
its own namespace; a schedule is a list of thread ids, one atomic step per entry.
-/
namespace DTML.Conc

structure Engine (Src Prog Cell Val Inp Out : Type) where
  parse : Src → Prog
  /-- the shared lazily-filled cells a rendering of the program touches, in order -/
  cellsOf : Prog → List Cell
  /-- the value every writer stores into a cell (it does not depend on the thread) -/
  cellVal : Cell → Val
  /-- rendering proper: program, this thread's inputs, the cell values it read -/
  exec : Prog → Inp → List Val → Out
  /-- what a thread gets when it finds no compiled program (AttributeError) -/
  crash : Out

variable {Src Prog Cell Val Inp Out : Type}

inductive PC (Prog Cell Val Out : Type) where
  | test                                         -- hasattr(self, '_v_cooked') ?
  | acquire                                      -- with COOKLOCK:
  | writeBlocks                                  --   self._v_blocks = self.parse(self.read())
  | writeFlag                                    --   self._v_cooked = None
  | release
  | readBlocks                                   -- render_blocks(self._v_blocks, md)
  | cells (p : Prog) (todo : List Cell) (acc : List Val)
  | done (r : Out)

structure Shared (Prog Cell Val : Type) where
  flag : Bool := false
  blocks : Option Prog := none
  lock : Option Nat := none
  cells : List (Cell × Val) := []

/-- one atomic step of thread `tid` -/
def stepThread [DecidableEq Cell] (E : Engine Src Prog Cell Val Inp Out) (raw : Src)
    (sh : Shared Prog Cell Val) (tid : Nat) (inp : Inp) :
    PC Prog Cell Val Out → Shared Prog Cell Val × PC Prog Cell Val Out
  | .test => if sh.flag then (sh, .readBlocks) else (sh, .acquire)
  | .acquire =>
    (match sh.lock with
     | none => ({ sh with lock := some tid }, .writeBlocks)
     | some _ => (sh, .acquire))               -- blocked: the step is a no-op
  | .writeBlocks => ({ sh with blocks := some (E.parse raw) }, .writeFlag)
  | .writeFlag => ({ sh with flag := true }, .release)
  | .release => ({ sh with lock := none }, .readBlocks)
  | .readBlocks =>
    (match sh.blocks with
     | some p => (sh, .cells p (E.cellsOf p) [])
     | none => (sh, .done E.crash))
  | .cells p [] acc => (sh, .done (E.exec p inp acc))
  | .cells p (c :: cs) acc =>
    (match sh.cells.lookup c with
     | some v => (sh, .cells p cs (acc ++ [v]))                                   -- already filled: use it
     | none => ({ sh with cells := (c, E.cellVal c) :: sh.cells }, .cells p cs (acc ++ [E.cellVal c])))
  | .done r => (sh, .done r)

structure Sys (Prog Cell Val Out : Type) where
  shared : Shared Prog Cell Val := {}
  pcs : List (PC Prog Cell Val Out)

def init (n : Nat) : Sys Prog Cell Val Out := { pcs := List.replicate n .test }

/-- the system takes one step of thread `tid` (nothing happens for an unknown thread) -/
def stepSys [DecidableEq Cell] (E : Engine Src Prog Cell Val Inp Out) (raw : Src) (inputs : List Inp)
    (s : Sys Prog Cell Val Out) (tid : Nat) : Sys Prog Cell Val Out :=
  match s.pcs[tid]?, inputs[tid]? with
  | some pc, some inp =>
    let (sh', pc') := stepThread E raw s.shared tid inp pc
    { shared := sh', pcs := s.pcs.set tid pc' }
  | _, _ => s

def runSched [DecidableEq Cell] (E : Engine Src Prog Cell Val Inp Out) (raw : Src) (inputs : List Inp)
    (s : Sys Prog Cell Val Out) (sched : List Nat) : Sys Prog Cell Val Out :=
  sched.foldl (stepSys E raw inputs) s

/-- what a thread obtains running alone -/
def solo (E : Engine Src Prog Cell Val Inp Out) (raw : Src) (inp : Inp) : Out :=
  E.exec (E.parse raw) inp ((E.cellsOf (E.parse raw)).map E.cellVal)

end DTML.Conc
