/-
Model of `dtml-in sort=…` / `reverse` (DT_In.InClass.sort_sequence,
make_sortfunctions, SortBy, reverse_sequence).

Keys are extracted per sort field from an attribute value (attribute, mapping
key, or result of calling a callable attribute; missing / None = smallest),
compared field by field with the field's comparison function and direction,
and the decorated list is sorted stably.  CPython's `list.sort` is stable; the
model uses core's `List.mergeSort` (any stable sort yields the same list for a
total preorder).
-/
namespace DTML.Sort

abbrev Text := List Char

inductive Key where
  | int (i : Int)        -- any totally ordered non-string key, through an order-preserving code
  | str (s : Text)
  deriving Repr, DecidableEq

/-- what the sort field finds in an element -/
inductive AttrVal where
  | plain (k : Key)      -- a value of a "basic" type (str, int, float, tuple, list)
  | noneVal              -- None
  | missing              -- no such attribute / mapping key
  | callable (k : Key)   -- a callable attribute; its result is the key
  | nonbasic (k : Key)   -- bool, date, Decimal, …: not basic, not callable: used as it is
  deriving Repr, DecidableEq

/-- key extraction of `sort_sequence` (`none` = `_Smallest`) -/
def extract : AttrVal → Option Key
  | .plain k => some k
  | .noneVal => none
  | .missing => none
  | .callable k => some k
  | .nonbasic k => some k

inductive CmpKind where
  | cmp | nocase | rcmp        -- rcmp: a user-supplied function from the namespace (here: reversed cmp)
  deriving Repr, DecidableEq

structure Field where
  kind : CmpKind := .cmp
  desc : Bool := false
  deriving Repr, DecidableEq

abbrev Code := Nat × Int × Text

/-- order-preserving code of an optional key: None first, then numbers, then text -/
def code (lower : Text → Text) (nocase : Bool) : Option Key → Code
  | none => (0, 0, [])
  | some (.int i) => (1, i, [])
  | some (.str s) => (2, 0, if nocase then lower s else s)

def cmpCode : Code → Code → Ordering :=
  compareLex (compareOn (·.1)) (compareLex (compareOn (·.2.1)) (compareOn (·.2.2)))

/-- comparison of one field: the comparison function, times the direction multiplier -/
def cmpField (lower : Text → Text) (f : Field) (a b : Option Key) : Ordering :=
  let c := cmpCode (code lower (f.kind == .nocase) a) (code lower (f.kind == .nocase) b)
  let c := if f.kind == .rcmp then c.swap else c
  if f.desc then c.swap else c

/-- SortBy.__call__: first field that differs decides -/
def cmpKeys (lower : Text → Text) : List Field → List (Option Key) → List (Option Key) → Ordering
  | [], _, _ => .eq
  | f :: fs, a, b =>
    (cmpField lower f (a.head?.join) (b.head?.join)).then (cmpKeys lower fs a.tail b.tail)

/-- a decorated element: its id (position in the caller's sequence) and its keys -/
abbrev Elt := Nat × List (Option Key)

def le (lower : Text → Text) (fs : List Field) (a b : Elt) : Bool := (cmpKeys lower fs a.2 b.2).isLE

/-- sort_sequence on decorated elements -/
def sortElts (lower : Text → Text) (fs : List Field) (l : List Elt) : List Elt :=
  l.mergeSort (le lower fs)

/-- the sequence dtml-in displays: optional sort, optional reverse -/
def display (lower : Text → Text) (fs : Option (List Field)) (reverse : Bool) (l : List Elt) : List Elt :=
  let s := match fs with
    | some fs => sortElts lower fs l
    | none => l
  if reverse then s.reverse else s

def decorate (rows : List (List AttrVal)) : List Elt :=
  (List.range rows.length).zip (rows.map (·.map extract))

end DTML.Sort
