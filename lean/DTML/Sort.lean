/-
Model of `dtml-in sort=…` / `reverse` (DT_In.InClass.sort_sequence,
make_sortfunctions, SortBy, reverse_sequence).

Keys are extracted per sort field from an attribute value (attribute, mapping
key, or result of calling a callable attribute; missing / None = smallest),
compared field by field with the field's comparison function and direction,
and the decorated list is sorted stably.  CPython's `list.sort` is stable; the
model uses core's `List.mergeSort` (any stable sort yields the same list for a
total preorder).
-/
namespace DTML.Sort

abbrev Text := List Char

inductive Key where
  | int (i : Int)        -- any totally ordered non-string key, through an order-preserving code
  | str (s : Text)
  deriving Repr, DecidableEq

/-- what the sort field finds in an element -/
inductive AttrVal where
  | plain (k : Key)      -- a value of a "basic" type (str, int, float, tuple, list)
  | noneVal              -- None
  | missing              -- no such attribute / mapping key
  | callable (k : Key)   -- a callable attribute; its result is the key
  | nonbasic (k : Key)   -- bool, date, Decimal, …: not basic, not callable: used as it is
  deriving Repr, DecidableEq

/-- key extraction of `sort_sequence` (`none` = `_Smallest`) -/
def extract : AttrVal → Option Key
  | .plain k => some k
  | .noneVal => none
  | .missing => none
  | .callable k => some k
  | .nonbasic k => some k

inductive CmpKind where
  | cmp | nocase | rcmp        -- rcmp: a user-supplied function from the namespace (here: reversed cmp)
  deriving Repr, DecidableEq

structure Field where
  kind : CmpKind := .cmp
  desc : Bool := false
  deriving Repr, DecidableEq

abbrev Code := Nat × Int × Text

/-- order-preserving code of an optional key: None first, then numbers, then text -/
def code (lower : Text → Text) (nocase : Bool) : Option Key → Code
  | none => (0, 0, [])
  | some (.int i) => (1, i, [])
  | some (.str s) => (2, 0, if nocase then lower s else s)

def cmpCode : Code → Code → Ordering :=
  compareLex (compareOn (·.1)) (compareLex (compareOn (·.2.1)) (compareOn (·.2.2)))

/-- comparison of one field: the comparison function, times the direction multiplier -/
def cmpField (lower : Text → Text) (f : Field) (a b : Option Key) : Ordering :=
  let c := cmpCode (code lower (f.kind == .nocase) a) (code lower (f.kind == .nocase) b)
  let c := if f.kind == .rcmp then c.swap else c
  if f.desc then c.swap else c

/-- SortBy.__call__: first field that differs decides -/
def cmpKeys (lower : Text → Text) : List Field → List (Option Key) → List (Option Key) → Ordering
  | [], _, _ => .eq
  | f :: fs, a, b =>
    (cmpField lower f (a.head?.join) (b.head?.join)).then (cmpKeys lower fs a.tail b.tail)

/-- a decorated element: its id (position in the caller's sequence) and its keys -/
abbrev Elt := Nat × List (Option Key)

def le (lower : Text → Text) (fs : List Field) (a b : Elt) : Bool := (cmpKeys lower fs a.2 b.2).isLE

/-- sort_sequence on decorated elements -/
def sortElts (lower : Text → Text) (fs : List Field) (l : List Elt) : List Elt :=
  l.mergeSort (le lower fs)

/-- the sequence dtml-in displays: optional sort, optional reverse -/
def display (lower : Text → Text) (fs : Option (List Field)) (reverse : Bool) (l : List Elt) : List Elt :=
  let s := match fs with
    | some fs => sortElts lower fs l
    | none => l
  if reverse then s.reverse else s

def decorate (rows : List (List AttrVal)) : List Elt :=
  (List.range rows.length).zip (rows.map (·.map extract))

/-! #### the sort attribute: `key[/function[/direction]]`, several of them separated by commas (make_sortfunctions) -/

/-- `str.split(sep)` with a one-character separator -/
def splitOn (sep : Char) : Text → List Text
  | [] => [[]]
  | c :: cs =>
    if c = sep then [] :: splitOn sep cs
    else match splitOn sep cs with
      | [] => [[c]]
      | p :: ps => (c :: p) :: ps

/-- the comparison function an option names -/
inductive FuncRef where
  | cmp | nocase | strcoll | strcollNocase
  | named (name : Text)      -- any other word: looked up in the namespace (`md.getitem(name, 0)`)
  deriving Repr, DecidableEq

/-- one parsed option of the sort attribute -/
structure FieldSpec where
  key : Text
  func : FuncRef
  desc : Bool
  deriving Repr, DecidableEq

def funcOfName (n : Text) : FuncRef :=
  if n = "cmp".toList then .cmp
  else if n = "nocase".toList then .nocase
  else if n = "locale".toList ∨ n = "strcoll".toList then .strcoll
  else if n = "locale_nocase".toList ∨ n = "strcoll_nocase".toList then .strcollNocase
  else .named n

/-- the direction word, case-insensitively; `none`: neither asc nor desc (SyntaxError) -/
def descOfWord (lower : Text → Text) (w : Text) : Option Bool :=
  if lower w = "asc".toList then some false
  else if lower w = "desc".toList then some true
  else none

def mkSpec (lower : Text → Text) (k f d : Text) : Option FieldSpec :=
  (descOfWord lower d).map fun desc => ⟨k, funcOfName f, desc⟩

/-- one option split at its slashes: the function defaults to `cmp`, the direction to `asc`; more than two slashes and an
unknown direction are SyntaxErrors (`none`) -/
def parseParts (lower : Text → Text) : List Text → Option FieldSpec
  | [k] => mkSpec lower k "cmp".toList "asc".toList
  | [k, f] => mkSpec lower k f "asc".toList
  | [k, f, d] => mkSpec lower k f d
  | _ => none

def parseOption (lower : Text → Text) (field : Text) : Option FieldSpec := parseParts lower (splitOn '/' field)

/-- the options in order; the first SyntaxError ends it -/
def parseOptions (lower : Text → Text) : List Text → Option (List FieldSpec)
  | [] => some []
  | o :: os =>
    match parseOption lower o with
    | none => none
    | some f => (parseOptions lower os).map (f :: ·)

/-- the whole attribute `sort="k1/f/d,k2,…"` -/
def parseSpec (lower : Text → Text) (spec : Text) : Option (List FieldSpec) := parseOptions lower (splitOn ',' spec)

/-- the comparison of the model an option stands for: a function from the namespace is the model's `rcmp`; the locale
functions are outside the model -/
def FuncRef.kind? : FuncRef → Option CmpKind
  | .cmp => some .cmp
  | .nocase => some .nocase
  | .named _ => some .rcmp
  | _ => none

def FieldSpec.field? (s : FieldSpec) : Option Field := s.func.kind?.map fun k => ⟨k, s.desc⟩

end DTML.Sort
