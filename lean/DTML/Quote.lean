/-
Model of HTML quoting as used by dtml-var / &dtml-name; :
  html_quote.html_quote (= html.escape(ustr(v), quote=True)),
  the fast-path decision of _DocumentTemplate.render_blocks_ for the simple forms,
  and an inverse for the five entities html.escape produces.
Text is `List Char` (Python str = sequence of code points).
-/
import DTML.Gen
namespace DTML.Quote

abbrev Text := List Char

/-- html.escape(c, quote=True) for one character -/
def escChar (c : Char) : Text :=
  if c = '&' then "&amp;".toList
  else if c = '<' then "&lt;".toList
  else if c = '>' then "&gt;".toList
  else if c = '"' then "&quot;".toList
  else if c = '\'' then "&#x27;".toList
  else [c]

/-- html.escape(s, quote=True) -/
def escape (s : Text) : Text := s.flatMap escChar

def isSpecial (c : Char) : Bool := c = '&' || c = '<' || c = '>' || c = '"' || c = '\''

/-- the test of the simple-form fast path: "does the string contain a character
that html_quote would change?", with the characters taken from the source
(`Gen.fastPathChars` is regenerated from render_blocks_ on every run). -/
def fastPathHit (c : Char) : Bool := Gen.fastPathChars.contains (String.singleton c)
def needsQuote (s : Text) : Bool := s.any fastPathHit

/-- `('v', name, 'h')` block on a `str` value -/
def renderSimpleH (s : Text) : Text := if needsQuote s then escape s else s
/-- `('v', name)` block on a `str` value -/
def renderSimple (s : Text) : Text := s
/-- full `Var.render` with the html_quote modifier / fmt=html-quote on a `str` -/
def renderFullH (s : Text) : Text := escape s

/-- inverse of `escape` on its image: replaces the five entities, leaves
everything else (html.unescape restricted to what html.escape emits). -/
def unescape5 : Text → Text
  | '&' :: 'a' :: 'm' :: 'p' :: ';' :: t => '&' :: unescape5 t
  | '&' :: 'l' :: 't' :: ';' :: t => '<' :: unescape5 t
  | '&' :: 'g' :: 't' :: ';' :: t => '>' :: unescape5 t
  | '&' :: 'q' :: 'u' :: 'o' :: 't' :: ';' :: t => '"' :: unescape5 t
  | '&' :: '#' :: 'x' :: '2' :: '7' :: ';' :: t => '\'' :: unescape5 t
  | c :: t => c :: unescape5 t
  | [] => []

end DTML.Quote
