/-
Small shared definitions (no Mathlib).
-/
namespace DTML

/-- consecutive elements of a list are related by `R` (core Lean has no `Chain'`). -/
def Linked {α : Type} (R : α → α → Prop) : List α → Prop
  | [] => True
  | [_] => True
  | a :: b :: t => R a b ∧ Linked R (b :: t)

end DTML
