/-
Line protocol driver: one JSON request per stdin line, one JSON response per
stdout line.  Runs the *model's* executable definitions; the Python harness
runs the real code on the same requests and diffs the observations.
-/
import Lean.Data.Json
import DTML.Batch
import DTML.Quote
import DTML.VarPipe
import DTML.ExtImpl
import DTML.Sort
import DTML.Stats
import DTML.TreeCodec
import DTML.TreeState
import DTML.Scan
import DTML.Parse
import DTML.Render
import DTML.Tmpl
import DTML.Conc
open Lean DTML

namespace Driver

def getInt (j : Json) (k : String) : Except String Int := j.getObjValAs? Int k
def getNat (j : Json) (k : String) : Except String Nat := j.getObjValAs? Nat k
def getStr (j : Json) (k : String) : Except String String := j.getObjValAs? String k
def getBool (j : Json) (k : String) : Except String Bool := j.getObjValAs? Bool k

def jInt (i : Int) : Json := Json.num (JsonNumber.fromInt i)
def jPairs (l : List (Int × Int)) : Json :=
  Json.arr (l.map fun (a, b) => Json.arr #[jInt a, jInt b]).toArray

/-- op "batch": window + links of `renderwb`. -/
def opBatch (j : Json) : Except String Json := do
  let start ← getInt j "start"; let end_ ← getInt j "end"; let size ← getInt j "size"
  let orphan ← getInt j "orphan"; let overlap ← getInt j "overlap"
  let len ← getInt j "len"; let lz ← getBool j "lazy"
  let s : Batch.Seq := ⟨len, lz⟩
  let (st, e, sz) := Batch.window start end_ size orphan s
  let l := Batch.links st e sz orphan overlap s
  return Json.mkObj [("start", jInt st), ("end", jInt e), ("size", jInt sz),
    ("prev", Json.bool l.prevFlag), ("pstart", jInt l.prevStart), ("pend", jInt l.prevEnd),
    ("next", Json.bool l.nextFlag), ("nstart", jInt l.nextStart), ("nend", jInt l.nextEnd)]

/-- op "batchlists": the window and the `next-batches` / `previous-batches` lists read on it
(entries: batch-start-index, batch-end-index, batch-size). -/
def opBatchLists (j : Json) : Except String Json := do
  let start ← getInt j "start"; let end_ ← getInt j "end"; let size ← getInt j "size"
  let orphan ← getInt j "orphan"; let overlap ← getInt j "overlap"
  let len ← getInt j "len"; let lz ← getBool j "lazy"
  let s : Batch.Seq := ⟨len, lz⟩
  let (st, e, sz) := Batch.window start end_ size orphan s
  let nb := Batch.nextBatches sz orphan overlap s ((len - e).toNat + 1) e
  let pb := Batch.prevBatches sz orphan overlap s (st.toNat + 1) st
  let tr (l : List (Int × Int × Int)) : Json := Json.arr (l.map fun (a, b, c) => Json.arr #[jInt a, jInt b, jInt c]).toArray
  return Json.mkObj [("start", jInt st), ("end", jInt e), ("size", jInt sz), ("nb", tr nb), ("pb", tr pb)]

/-- op "opt": raw DT_InSV.opt. -/
def opOpt (j : Json) : Except String Json := do
  let start ← getInt j "start"; let end_ ← getInt j "end"; let size ← getInt j "size"
  let orphan ← getInt j "orphan"
  let len ← getInt j "len"; let lz ← getBool j "lazy"
  let (st, e, sz) := Batch.opt start end_ size orphan ⟨len, lz⟩
  return Json.arr #[jInt st, jInt e, jInt sz]

def opFollow (j : Json) : Except String Json := do
  let size ← getInt j "size"; let orphan ← getInt j "orphan"; let overlap ← getInt j "overlap"
  let len ← getInt j "len"; let lz ← getBool j "lazy"
  let ws := Batch.follow size orphan overlap ⟨len, lz⟩ len.toNat 1
  return jPairs ws

/-- op "lazy": pulls of a batched render over a counting iterator (`n` = -1: unbounded). -/
def opLazy (j : Json) : Except String Json := do
  let start ← getInt j "start"; let end_ ← getInt j "end"; let size ← getInt j "size"
  let orphan ← getInt j "orphan"; let overlap ← getInt j "overlap"
  let n ← getInt j "n"; let batched ← getBool j "batched"
  let unbounded := n < 0
  let s : Batch.Seq := ⟨if unbounded then 1000000000 else n, true⟩
  let t := if batched then Batch.renderwbT start end_ size orphan overlap s else Batch.renderwobT s
  let l := (Batch.LazySt.init (if unbounded then none else some n.toNat)).run t
  let (st, e, sz) := Batch.window start end_ size orphan s
  return Json.mkObj [("pulled", Json.num l.pulled), ("hasLen", Json.bool (Batch.hasLen t)),
    ("sequential", Json.bool (l.log == List.range l.pulled)),
    ("start", jInt st), ("end", jInt e), ("size", jInt sz)]

/-- op "quote": the quoting forms on a str value -/
def opQuote (j : Json) : Except String Json := do
  let v ← getStr j "s"
  let s := v.toList
  return Json.mkObj [("escape", Json.str (String.ofList (Quote.escape s))),
    ("simpleH", Json.str (String.ofList (Quote.renderSimpleH s))),
    ("fullH", Json.str (String.ofList (Quote.renderFullH s))),
    ("plain", Json.str (String.ofList (Quote.renderSimple s))),
    ("unesc", Json.str (String.ofList (Quote.unescape5 (Quote.escape s))))]

def getOptText (j : Json) (k : String) : Option (List Char) :=
  match j.getObjValAs? String k with
  | .ok s => some s.toList
  | .error _ => none

def parseVal (j : Json) : Except String (Option VarPipe.Val) := do
  let kind ← getStr j "kind"
  match kind with
  | "undefined" => return none
  | "none" => return some .none
  | "int" => return some (.int (← getInt j "i"))
  | "str" => return some (.str (← getStr j "s").toList (← getBool j "t"))
  | "obj" =>
    let ms ← j.getObjVal? "methods"
    let ml ← match ms with
      | .obj kvs => pure (kvs.toList.map fun (k, v) => (k, (v.getStr?.toOption.getD "").toList))
      | _ => throw "methods"
    return some (.obj (← getStr j "s").toList (← getBool j "truthy") ml)
  | _ => throw s!"bad value kind {kind}"

def errName : VarPipe.Err → String
  | .typeError => "TypeError" | .attributeError => "AttributeError"
  | .valueError => "ValueError" | .keyError => "KeyError"

def isInfix (p s : List Char) : Bool :=
  (List.range (s.length + 1)).any fun i => p.isPrefixOf (s.drop i)

/-- op "var": the dtml-var pipeline on one value -/
def opVar (j : Json) : Except String Json := do
  let written ← j.getObjValAs? (Array String) "written"
  let sp : VarPipe.Spec := {
    written := written.toList, missing := getOptText j "missing", null := getOptText j "null",
    fmt := getOptText j "fmt", size := getOptText j "size", etc := getOptText j "etc",
    cfmt := (getOptText j "cfmt").getD ['s'] }
  let v ← parseVal (← j.getObjVal? "value")
  match VarPipe.render ExtImpl.ext sp v with
  | none => return Json.mkObj [("oom", Json.bool true)]
  | some (.error e) => return Json.mkObj [("err", Json.str (errName e))]
  | some (.ok t) =>
    -- the marker may have been cut by size= / changed by a later modifier: its first character (U+FFFF, never generated) decides
    if isInfix ExtImpl.oomMarker t || t.contains (Char.ofNat 0xFFFF) then return Json.mkObj [("oom", Json.bool true)]
    else return Json.mkObj [("out", Json.str (String.ofList t)),
      ("applied", Json.arr ((VarPipe.applied sp).map Json.str).toArray),
      ("simple", Json.num (VarPipe.simpleKind sp))]

def parseKey (j : Json) : Except String Sort.Key := do
  match j with
  | .str s => return .str s.toList
  | _ => return .int (← j.getInt?)

def parseAttr (j : Json) : Except String Sort.AttrVal := do
  let k ← getStr j "a"
  match k with
  | "none" => return .noneVal
  | "missing" => return .missing
  | "plain" => return .plain (← parseKey (← j.getObjVal? "k"))
  | "callable" => return .callable (← parseKey (← j.getObjVal? "k"))
  | "nonbasic" => return .nonbasic (← parseKey (← j.getObjVal? "k"))
  | _ => throw s!"attr kind {k}"

/-- op "sort": displayed order (ids) of a sorted / reversed sequence -/
def opSort (j : Json) : Except String Json := do
  let rowsJ ← j.getObjValAs? (Array Json) "rows"
  let rows ← rowsJ.toList.mapM fun r => do
    let cells ← r.getArr?
    cells.toList.mapM parseAttr
  let rev ← getBool j "reverse"
  let fsJ ← j.getObjVal? "fields"
  let fs : Option (List Sort.Field) ← match fsJ with
    | .null => pure none
    | .arr a => do
      let l ← a.toList.mapM fun f => do
        let k ← getStr f "kind"
        let d ← getBool f "desc"
        let kind : Sort.CmpKind := if k = "nocase" then .nocase else if k = "rcmp" then .rcmp else .cmp
        pure ({ kind := kind, desc := d } : Sort.Field)
      pure (some l)
    | _ => throw "fields"
  let out := Sort.display ExtImpl.asciiLower fs rev (Sort.decorate rows)
  return Json.arr (out.map (fun e => Json.num e.1)).toArray

def parseRat (j : Json) : Except String Rat := do
  let a ← j.getArr?
  let n ← (a[0]!).getInt?
  let d ← (a[1]!).getNat?
  return mkRat n d

def jRat (r : Rat) : Json := Json.arr #[jInt r.num, Json.num r.den]
def jRatO : Option Rat → Json
  | some r => jRat r
  | none => Json.null

/-- op "stats": summary statistics of a list of rationals / None -/
def opStats (j : Json) : Except String Json := do
  let itemsJ ← j.getObjValAs? (Array Json) "items"
  let items ← itemsJ.toList.mapM fun x => match x with
    | .null => pure none
    | _ => do pure (some (← parseRat x))
  let isInt ← getBool j "isInt"
  let xs := Stats.numeric items
  let p := Stats.pass xs
  return Json.mkObj [("count", Json.num p.count), ("total", jRat p.sum),
    ("mean", if xs.isEmpty then Json.null else jRat (Stats.mean xs)),
    ("varN", if xs.isEmpty then Json.null else jRat (Stats.varianceN xs)),
    ("var", if xs.length ≤ 1 then Json.null else jRat (Stats.variance xs)),
    ("min", jRatO p.min), ("max", jRatO p.max), ("median", jRatO (Stats.median isInt xs))]

/-- op "b64": encode_str of a byte list, and decode of the result / of a given text -/
def opB64 (j : Json) : Except String Json := do
  let bs ← j.getObjValAs? (Array Nat) "bytes"
  let enc := TreeCodec.encodeStr bs.toList
  let dec := TreeCodec.decodeStr enc
  return Json.mkObj [("enc", Json.str (String.ofList enc)),
    ("dec", match dec with
      | some l => Json.arr (l.map (fun (n : Nat) => Json.num n)).toArray
      | none => Json.null)]

partial def parseTree (j : Json) : Except String TreeState.T := do
  let a ← j.getArr?
  let id ← (a[0]!).getNat?
  let kids ← (a[1]!).getArr?
  let ks ← kids.toList.mapM parseTree
  return .node id ks

def jPath (p : List Nat) : Json := Json.arr (p.map (fun (n : Nat) => Json.num n)).toArray

def treeSnapshot (root : TreeState.T) (st : List TreeState.St) : Json :=
  let rows := TreeState.render root st
  Json.mkObj [("rows", Json.arr (rows.map fun r =>
      Json.arr #[Json.num r.id, Json.bool r.hasLink, Json.bool r.expanded, jPath r.path]).toArray),
    ("paths", Json.arr ((TreeState.pathsList st []).map jPath).toArray)]

/-- op "tree": run a click history on a tree; snapshot after the start and after every click -/
def opTree (j : Json) : Except String Json := do
  let root ← parseTree (← j.getObjVal? "tree")
  let start ← getStr j "start"
  let clicksJ ← j.getObjValAs? (Array Json) "clicks"
  let st0 := if start = "expand_all" then TreeState.expandAllState root else TreeState.initState root
  let mut st := st0
  let mut out := #[treeSnapshot root st]
  for c in clicksJ do
    let kind ← getStr c "kind"
    if kind = "expand_all" then st := TreeState.expandAllState root
    else if kind = "collapse_all" then st := TreeState.initState root
    else
      let path ← c.getObjValAs? (Array Nat) "path"
      st := TreeState.click st path.toList (kind = "e")
    out := out.push (treeSnapshot root st)
  return Json.arr out

def jText (t : List Char) : Json := Json.str (String.ofList t)

def jTok (t : Scan.Tok) : Json :=
  Json.arr #[jText t.text, Json.bool t.isEnd, jText t.name, jText t.args, jText t.fmt]

def parseSyntax (s : String) : Scan.Syntax := if s = "epfs" then .epfs else .html

/-- op "tokens": the tokeniser (repeated tagre.search) -/
def opTokens (j : Json) : Except String Json := do
  let src ← getStr j "src"
  let syn := parseSyntax (← getStr j "syntax")
  let (ps, tl) := Scan.tokens syn src.toList
  return Json.mkObj [("toks", Json.arr (ps.map fun (l, t) => Json.arr #[jText l, jTok t]).toArray),
    ("tail", jText tl)]

def jParams (p : Parse.Params) (skip : List String) : Json :=
  Json.arr ((p.filter (fun kv => !(skip.contains kv.1))).map (fun (k, v) =>
    Json.arr #[Json.str k, match v with
      | .str s => jText s
      | .dflt r => Json.mkObj [("dflt", Json.str r)]])).toArray

def jTarget (t : Option Parse.NameOrExpr) : Array Json :=
  match t with
  | some t => #[jText t.name, Json.bool t.isExpr]
  | none => #[Json.null, Json.bool false]

/-- target of a continuation section's arguments (elif) -/
def secTarget (args : List Char) : Array Json :=
  match Parse.parseParams (Parse.tbl Gen.ifParams 2) args with
  | .ok p => (match Parse.nameParam p true with
      | .ok (t, _) => jTarget (some t)
      | .error _ => jTarget none)
  | .error _ => jTarget none

partial def jNode : Parse.Node → Json
  | .lit s => Json.arr #[Json.str "lit", jText s]
  | .simple cmd b fmt =>
    (match cmd with
     | .var => Json.arr (#[Json.str "var"] ++ jTarget b.target ++ #[jParams b.params ["", "name", "expr"], jText fmt])
     | .call => Json.arr (#[Json.str "call"] ++ jTarget b.target)
     | .ret => Json.arr (#[Json.str "return"] ++ jTarget b.target)
     | _ => Json.arr #[Json.str "?"])
  | .block cmd b secs =>
    let body (i : Nat) : Json := match secs[i]? with
      | some s => Json.arr (s.body.map jNode).toArray
      | none => Json.null
    match cmd with
    | .comment => Json.arr #[Json.str "comment"]
    | .unless | .else_ => Json.arr (#[Json.str "unless"] ++ jTarget b.target ++ #[body 0])
    | .if_ =>
      let hasElse := secs.length > 1 && (secs.getLast?.map (·.tname)) == some "else"
      let conds := if hasElse then secs.dropLast else secs
      let cj := conds.zipIdx.map fun (s, i) =>
        Json.arr ((if i = 0 then jTarget b.target else secTarget s.args) ++ #[Json.arr (s.body.map jNode).toArray])
      Json.arr #[Json.str "if", Json.arr cj.toArray,
        if hasElse then (match secs.getLast? with
          | some s => Json.arr (s.body.map jNode).toArray
          | none => Json.null) else Json.null]
    | .in_ => Json.arr (#[Json.str "in"] ++ jTarget b.target ++ #[jParams b.params ["", "name", "expr"], body 0,
        if secs.length > 1 then body 1 else Json.null])
    | .with_ => Json.arr (#[Json.str "with"] ++ jTarget b.target ++ #[jParams b.params ["", "name", "expr"], body 0])
    | .let_ => Json.arr #[Json.str "let", jParams b.params [], body 0]
    | .raise_ => Json.arr (#[Json.str "raise"] ++ jTarget b.target ++ #[body 0])
    | .try_ =>
      Json.arr #[Json.str "try", Json.arr (secs.map fun s =>
        Json.arr #[Json.str s.tname, jText (Scan.pyStrip s.args), Json.arr (s.body.map jNode).toArray]).toArray]
    | .tree => Json.arr (#[Json.str "tree"] ++ jTarget b.target ++ #[jParams b.params ["", "name", "expr"], body 0])
    | _ => Json.arr #[Json.str "?"]

/-- op "compile": tokenise + build; the expressions to be compiled are listed -/
def opCompile (j : Json) : Except String Json := do
  let src ← getStr j "src"
  let syn := parseSyntax (← getStr j "syntax")
  let (ps, _) := Scan.tokens syn src.toList
  match Parse.compile syn src.toList with
  | .ok out =>
    return Json.mkObj [("status", Json.str "ok"),
      ("exprs", Json.arr (out.exprs.map fun e => Json.arr #[jText e.src, Json.bool e.shorthand]).toArray),
      ("tree", Json.arr (out.nodes.map jNode).toArray)]
  | .error le =>
    let start := Parse.tokStart ps le.tok
    let tag := (ps.getD le.tok ([], ⟨[], false, [], [], []⟩)).2.text
    return Json.mkObj [("status", Json.str "error"), ("msg", Json.str le.err.msg), ("tok", Json.num le.tok),
      ("tag", jText tag), ("line", Json.num (Parse.lineOf src.toList start))]

namespace RJ
open DTML.Render

def txt (j : Json) : Except String (List Char) := do return (← j.getStr?).toList

partial def val (j : Json) : Except String Val := do
  match j with
  | .null => return .none
  | .bool b => return .bool b
  | .num _ => return .int (← j.getInt?)
  | .obj _ =>
    if let .ok s := j.getObjVal? "s" then return .str (← txt s)
    if let .ok b := j.getObjValAs? (Array Nat) "b" then return .bytes b.toList
    if let .ok l := j.getObjValAs? (Array Json) "l" then return .list (← l.toList.mapM val)
    if let .ok l := j.getObjValAs? (Array Json) "t" then return .tuple (← l.toList.mapM val)
    if let .ok l := j.getObjValAs? (Array Json) "d" then return .dict (← kvs l)
    if let .ok id := j.getObjValAs? Nat "o" then
      return .obj id (← kvs (← j.getObjValAs? (Array Json) "a"))
    if let .ok id := j.getObjValAs? Nat "f" then return .fn id (← val (← j.getObjVal? "r"))
    if let .ok id := j.getObjValAs? Nat "T" then return .tmpl id
    if let .ok c := j.getObjVal? "x" then return .exc (← txt c) (← txt (← j.getObjVal? "m"))
    throw "bad value object"
  | _ => throw "bad value"
where
  kvs (l : Array Json) : Except String (List (List Char × Val)) :=
    l.toList.mapM fun p => do
      let a ← p.getArr?
      return ((← txt a[0]!), (← val a[1]!))

partial def expr (j : Json) : Except String Expr := do
  let a ← j.getArr?
  let k ← a[0]!.getStr?
  match k with
  | "name" => return .name (← txt a[1]!)
  | "under" => return .under (← txt a[1]!)
  | "lit" => return .lit (← val a[1]!)
  | "attr" => return .attr (← expr a[1]!) (← txt a[2]!)
  | "item" => return .item (← expr a[1]!) (← val a[2]!)
  | "call" => return .call (← expr a[1]!)
  | "not" => return .not (← expr a[1]!)
  | "eq" => return .eq (← expr a[1]!) (← expr a[2]!)
  | _ => throw s!"expr {k}"

def src (j : Json) : Except String Src := do
  let a ← j.getArr?
  if (← a[0]!.getStr?) = "n" then return .name (← txt a[1]!) else return .expr (← expr a[1]!)

def optTxt (j : Json) : Except String (Option (List Char)) :=
  match j with
  | .null => pure none
  | j => do return some (← txt j)

partial def blk (j : Json) : Except String Blk := do
  let a ← j.getArr?
  let k ← a[0]!.getStr?
  match k with
  | "lit" => return .lit (← txt a[1]!)
  | "comment" => return .comment
  | "var" => return .var (← src a[1]!) (← a[2]!.getBool?) (← optTxt a[3]!) (← optTxt a[4]!)
  | "cond" =>
    let cs ← (← a[1]!.getArr?).toList.mapM fun c => do
      let ca ← c.getArr?
      return ((← src ca[0]!), (← blks ca[1]!))
    return .cond cs (← optBlks a[2]!)
  | "unless" => return .unless_ (← src a[1]!) (← blks a[2]!)
  | "call" => return .call (← src a[1]!)
  | "in" =>
    let o := a[2]!
    let opts : InOpts := { mapping := (o.getObjValAs? Bool "mapping").toOption.getD false,
                           noPush := (o.getObjValAs? Bool "noPush").toOption.getD false,
                           prefix_ := (o.getObjValAs? String "prefix").toOption.map String.toList,
                           skipUnauth := (o.getObjValAs? Bool "skip").toOption.getD false }
    return .in_ (← src a[1]!) opts (← blks a[3]!) (← optBlks a[4]!)
  | "inx" =>
    let o := a[2]!
    let opts : InOpts := { mapping := (o.getObjValAs? Bool "mapping").toOption.getD false,
                           noPush := (o.getObjValAs? Bool "noPush").toOption.getD false,
                           prefix_ := (o.getObjValAs? String "prefix").toOption.map String.toList,
                           skipUnauth := (o.getObjValAs? Bool "skip").toOption.getD false }
    let x := a[3]!
    let gi (b : Json) (k : String) : Int := (b.getObjValAs? Int k).toOption.getD 0
    let batch : Option BatchP := match x.getObjVal? "batch" with
      | .ok (.obj kv) =>
        let b := Json.obj kv
        some { start := gi b "start", end_ := gi b "end", size := gi b "size", orphan := gi b "orphan",
               overlap := gi b "overlap", previous := (b.getObjValAs? Bool "previous").toOption.getD false,
               next := (b.getObjValAs? Bool "next").toOption.getD false }
      | _ => none
    let optExpr (k : String) : Except String (Option Expr) :=
      match x.getObjVal? k with
      | .ok (.arr a) => do return some (← expr (.arr a))
      | _ => pure none
    let names : List (List Char × List Char) := match x.getObjVal? "names" with
      | .ok (.arr a) => a.toList.filterMap fun p => match p with
          | .arr #[.str k, .str n] => some (k.toList, n.toList)
          | _ => none
      | _ => []
    let xo : InXOpts := { sortKey := (x.getObjValAs? String "sort").toOption.map String.toList,
                          reverse := (x.getObjValAs? Bool "reverse").toOption.getD false, batch := batch,
                          sortExpr := ← optExpr "sortExpr", reverseExpr := ← optExpr "reverseExpr", names := names }
    return .inx_ (← src a[1]!) opts xo (← blks a[4]!) (← optBlks a[5]!)
  | "with" => return .with_ (← src a[1]!) (← a[2]!.getBool?) (← a[3]!.getBool?) (← blks a[4]!)
  | "let" =>
    let bs ← (← a[1]!.getArr?).toList.mapM fun b => do
      let ba ← b.getArr?
      return ((← txt ba[0]!), (← src ba[1]!))
    return .let_ bs (← blks a[2]!)
  | "try" =>
    let hs ← (← a[2]!.getArr?).toList.mapM fun h => do
      let ha ← h.getArr?
      return ((← txt ha[0]!), (← blks ha[1]!))
    return .try_ (← blks a[1]!) hs (← optBlks a[3]!)
  | "tryfin" => return .tryFin (← blks a[1]!) (← blks a[2]!)
  | "raise" =>
    let e ← match a[2]! with
      | .null => pure none
      | x => do pure (some (← expr x))
    return .raise_ (← txt a[1]!) e (← blks a[3]!)
  | "ret" => return .ret (← src a[1]!)
  | _ => throw s!"blk {k}"
where
  blks (j : Json) : Except String (List Blk) := do (← j.getArr?).toList.mapM blk
  optBlks (j : Json) : Except String (Option (List Blk)) :=
    match j with
    | .null => pure none
    | j => do return some (← (← j.getArr?).toList.mapM blk)

def kvs (j : Json) : Except String (List (List Char × Val)) := do
  (← j.getArr?).toList.mapM fun p => do
    let a ← p.getArr?
    return ((← txt a[0]!), (← val a[1]!))

def template (j : Json) : Except String Template := do
  -- construction-time keyword arguments and mapping, when given, make the defaults (initvars)
  let globals ← match j.getObjVal? "ckw" with
    | .ok ck => do pure (Render.initvars (← kvs ck) (← kvs (← j.getObjVal? "cmapping")))
    | .error _ => kvs (← j.getObjVal? "globals")
  return { blocks := ← (← (← j.getObjVal? "blocks").getArr?).toList.mapM blk,
           globals := globals, vars := ← kvs (← j.getObjVal? "vars") }

def jPiece : Piece → Json
  | .text s => Json.mkObj [("s", jText s)]
  | .bytes b => Json.mkObj [("b", Json.arr (b.map (fun (n : Nat) => Json.num n)).toArray)]

partial def jVal : Val → Json
  | .none => Json.null
  | .bool b => Json.bool b
  | .int i => jInt i
  | .str s => Json.mkObj [("s", jText s)]
  | .bytes b => Json.mkObj [("b", Json.arr (b.map (fun (n : Nat) => Json.num n)).toArray)]
  | .list xs => Json.mkObj [("l", Json.arr (xs.map jVal).toArray)]
  | .tuple xs => Json.mkObj [("t", Json.arr (xs.map jVal).toArray)]
  | .dict kv => Json.mkObj [("d", Json.arr (kv.map fun (k, v) => Json.arr #[jText k, jVal v]).toArray)]
  | .obj id _ => Json.mkObj [("o", Json.num id)]
  | .fn id _ => Json.mkObj [("f", Json.num id)]
  | .tmpl id => Json.mkObj [("T", Json.num id)]
  | .exc c m => Json.mkObj [("x", jText c), ("m", jText m)]

def jEvent : Event → Json
  | .call id => Json.arr #[Json.str "call", Json.num id]
  | .guard o n => Json.arr #[Json.str "guard", Json.num o, jText n]
  | .gitem o i => Json.arr #[Json.str "gitem", Json.num o, jInt i]
  | .snap fs lv => Json.arr #[Json.str "snap", Json.arr (fs.map fun (k, keys, id) =>
      Json.arr #[jText k, Json.arr (keys.map jText).toArray, Json.num id]).toArray, Json.num lv]

def jFrame : Frame → Json
  | .dict kv => Json.arr #[Json.str "dict", Json.arr (kv.map fun (k, _) => jText k).toArray]
  | .inst v _ => Json.arr #[Json.str "inst", jVal v]
  | .seq _ => Json.arr #[Json.str "seq"]
  | .bad => Json.arr #[Json.str "bad"]

/-- op "render": a top-level template call on the interpreter model -/
def opRender (j : Json) : Except String Json := do
  let tmpls ← (← (← j.getObjVal? "templates").getArr?).toList.mapM template
  let classes ← (← (← j.getObjVal? "classes").getArr?).toList.mapM fun c => do
    let a ← c.getArr?
    let bases ← (← a[1]!.getArr?).toList.mapM txt
    return ((← txt a[0]!), bases)
  let denied ← (← (← j.getObjVal? "denied").getArr?).toList.mapM fun d => do
    let a ← d.getArr?
    return ((← a[0]!.getNat?), (← txt a[1]!))
  let guardOn := (j.getObjValAs? Bool "guard").toOption.getD false
  let deniedItems := ((j.getObjValAs? (Array Nat) "deniedItems").toOption.getD #[]).toList
  let faults := ((j.getObjValAs? (Array Nat) "faults").toOption.getD #[]).toList
  let faultCls := ((j.getObjValAs? String "faultCls").toOption.getD "ValueError").toList
  let utf8 := (j.getObjValAs? Bool "utf8").toOption.getD true
  let env : Render.Env :=
    { templates := tmpls, classes := classes, guardOn := guardOn, denied := denied, deniedItems := deniedItems, faults := faults,
      faultExc := ⟨faultCls, "fault".toList⟩, utf8 := utf8 }
  let main ← getNat j "main"
  let clients ← (← (← j.getObjVal? "clients").getArr?).toList.mapM val
  let args : CallArgs := { clients := clients, mapping := ← kvs (← j.getObjVal? "mapping"),
                           kw := ← kvs (← j.getObjVal? "kw") }
  let fuel := (j.getObjValAs? Nat "fuel").toOption.getD 100000
  match tmpls[main]? with
  | none => throw "main"
  | some t =>
    let (r, st) := topCall env fuel t args
    let res := match r with
      | .ok v => Json.mkObj [("ok", jVal v)]
      | .raise e => Json.mkObj [("raise", jText e.cls), ("msg", jText e.msg)]
      | .ret v => Json.mkObj [("ok", jVal v)]
      | .oom => Json.mkObj [("oom", Json.bool true)]
    return Json.mkObj [("result", res), ("trace", Json.arr (st.trace.map jEvent).toArray),
      ("stack", Json.arr (st.stack.map jFrame).toArray), ("level", Json.num st.level),
      ("calls", Json.num st.calls),
      ("stack0", Json.arr ((callStack t args).map jFrame).toArray)]

end RJ


namespace TJ
open DTML.Tmpl

abbrev D := List (String × Int)

def dict (j : Json) : Except String D := do
  (← j.getArr?).toList.mapM fun p => do
    let a ← p.getArr?
    return ((← a[0]!.getStr?), (← a[1]!.getInt?))

def jDict (d : D) : Json := Json.arr (d.map fun (k, v) => Json.arr #[Json.str k, jInt v]).toArray

/-- the concrete engine of the correspondence: sources and programs are numbers (a program is
"the compilation of source n"), a rendering is the tuple of what it depends on -/
def engine : Engine Nat Nat D D (Nat × D × D × D) :=
  { parse := fun s => s,
    exec := fun p g v i => (p, g, v, i),
    initvars := fun m kw => kw ++ m.filter (fun e => !(e.1.startsWith "_") && !(kw.any (·.1 == e.1))),
    update := fun d kw => d.filter (fun e => !(kw.any (·.1 == e.1))) ++ kw,
    empty := [] }

def op (j : Json) : Except String (Op Nat D D) := do
  let a ← j.getArr?
  match (← a[0]!.getStr?) with
  | "render" => return .render (← dict a[1]!)
  | "pickle" => return .pickle
  | "deepcopy" => return .deepcopy
  | "cook" => return .cook
  | "mungeSrc" => return .mungeSrc (← a[1]!.getNat?)
  | "mungeVars" => return .mungeVars (← dict a[1]!) (← dict a[2]!)
  | "mungeBoth" => return .mungeBoth (← a[1]!.getNat?) (← dict a[2]!) (← dict a[3]!)
  | "var" => return .var (← dict a[1]!)
  | "default" => return .default (← dict a[1]!)
  | k => throw s!"tmpl op {k}"

def jState (t : Tmpl Nat Nat D) (out : Option (Nat × D × D × D)) : Json :=
  Json.mkObj [("raw", Json.num t.raw), ("globals", jDict t.globals), ("vars", jDict t.vars),
    ("cooked", match t.cooked with | some p => Json.num p | none => Json.null),
    ("out", match out with
      | some (p, g, v, i) => Json.arr #[Json.num p, jDict g, jDict v, jDict i]
      | none => Json.null)]

/-- op "tmpl": a history of operations on a template object -/
def opTmpl (j : Json) : Except String Json := do
  let init ← (← j.getObjVal? "init").getArr?
  let t0 := fresh engine (← init[0]!.getNat?) (← dict init[1]!) (← dict init[2]!)
  let ops ← (← (← j.getObjVal? "ops").getArr?).toList.mapM op
  let (_, outs) := ops.foldl (fun (acc : Tmpl Nat Nat D × List Json) o =>
    let (t', out) := step engine acc.1 o
    (t', acc.2 ++ [jState t' out])) (t0, [])
  return Json.arr outs.toArray

end TJ


namespace CJ
open DTML.Conc

/-- concrete engine of the correspondence: the program is "the compilation of source n", a
rendering is the pair (program, thread input); there are no lazily filled cells at render time
(the shared-write monitor of the harness checks exactly that) -/
def engine : Engine Nat Nat Nat Nat Nat (Int × Int) :=
  { parse := fun s => s, cellsOf := fun _ => [], cellVal := fun c => c,
    exec := fun p i _ => (p, i), crash := (-1, -1) }

def pcName : PC Nat Nat Nat (Int × Int) → String
  | .test => "test" | .acquire => "acquire" | .writeBlocks => "writeBlocks" | .writeFlag => "writeFlag"
  | .release => "release" | .readBlocks => "readBlocks" | .cells _ _ _ => "finish" | .done _ => "done"

/-- op "conc": replay the shared-access events of a real concurrent run (thread id + kind, in the
order they took effect) on the model; an event whose kind is not the thread's next step is
reported -/
def opConc (j : Json) : Except String Json := do
  let n ← getNat j "threads"
  let raw ← getNat j "raw"
  let inputs := (List.range n).map fun i => i + 100
  let events ← (← (← j.getObjVal? "events").getArr?).toList.mapM fun e => do
    let a ← e.getArr?
    return ((← a[0]!.getNat?), (← a[1]!.getStr?))
  let cooked := (j.getObjValAs? Bool "cooked").toOption.getD false
  -- a template compiled before the threads start: the state a solo `cook()` leaves
  let start : Sys Nat Nat Nat (Int × Int) :=
    if cooked then { shared := { flag := true, blocks := some (engine.parse raw) }, pcs := (init n : Sys Nat Nat Nat (Int × Int)).pcs }
    else init n
  let (s, bad) := events.foldl (fun (acc : Sys Nat Nat Nat (Int × Int) × List String) ev =>
    let (s, bad) := acc
    let pc := (s.pcs[ev.1]?).map pcName |>.getD "?"
    -- a `test` that finds the flag set goes straight on: nothing else to check there
    let bad := if pc == ev.2 then bad else bad ++ [s!"thread {ev.1}: event {ev.2} at step {pc}"]
    (stepSys engine raw inputs s ev.1, bad)) (start, [])
  let results := s.pcs.map fun pc => match pc with
    | .done (p, i) => Json.arr #[jInt p, jInt i]
    | pc => Json.str (pcName pc)
  return Json.mkObj [("results", Json.arr results.toArray), ("unexpected", Json.arr (bad.map Json.str).toArray),
    ("flag", Json.bool s.shared.flag), ("blocks", match s.shared.blocks with | some p => Json.num p | none => Json.null)]

end CJ

def handle (j : Json) : Except String Json := do
  let op ← getStr j "op"
  match op with
  | "batch" => opBatch j
  | "opt" => opOpt j
  | "batchlists" => opBatchLists j
  | "follow" => opFollow j
  | "lazy" => opLazy j
  | "quote" => opQuote j
  | "var" => opVar j
  | "sort" => opSort j
  | "stats" => opStats j
  | "b64" => opB64 j
  | "tree" => opTree j
  | "tokens" => opTokens j
  | "compile" => opCompile j
  | "render" => RJ.opRender j
  | "tmpl" => TJ.opTmpl j
  | "conc" => CJ.opConc j
  | "ping" => return Json.str "pong"
  | _ => throw s!"unknown op {op}"

partial def loop (inp out : IO.FS.Stream) : IO Unit := do
  let line ← inp.getLine
  if line.isEmpty then return ()
  let resp := match Json.parse line with
    | .ok j => (match handle j with
        | .ok r => Json.mkObj [("ok", r)]
        | .error e => Json.mkObj [("error", Json.str e)])
    | .error e => Json.mkObj [("error", Json.str ("json: " ++ e))]
  out.putStrLn resp.compress
  loop inp out

end Driver

def main : IO Unit := do
  Driver.loop (← IO.getStdin) (← IO.getStdout)
