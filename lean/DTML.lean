import DTML.Basic
import DTML.Gen
import DTML.Batch
import DTML.Props.C11
import DTML.Props.C12
import DTML.Quote
import DTML.Props.C03
